"""Per-property configuration of ./check: which Verus units and Kani harnesses decide it."""

T_VERUS = 'Verus 0.2026.09.13 + bundled Z3; vstd specifications of Vec, slices, BTreeMap (ascending iteration), VecDeque, Option/Result, checked_add'
T_R1 = 'R1: LinkedList is read as VecDeque (same sequence semantics for new/push_back/iter/front/clear/clone/==)'
T_TOVEC = 'assumed: <[T]>::to_vec returns a copy (assume_specification)'
T_BE = 'assumed: u16::from_be_bytes([a,b]) == a*256+b (R5 wrapper); R3 be16_at contract == the u8_to_unsigned_be! macro expression on little-endian hosts (checked by Kani harness be16_macro_contract via the real parser)'
T_ENTRY = 'assumed: options.entry(n).or_default().push_back(v) appends v to the list under n (R4 wrapper, std entry API)'
T_SLICE = 'slices are at most isize::MAX bytes long (Rust invariant, stated as precondition)'
T_ARITH = 'machine arithmetic is NOT treated as mathematical: Verus checks every + - * << as for overflow on u8/u16/usize (usize 32 or 64 bit)'

CHECKS = {
    'C03': {
        'level': 'proof',
        'units': ['dec'],
        'kani': [],
        'trusted': [T_VERUS, T_R1, T_TOVEC, T_BE, T_ENTRY, T_SLICE, T_ARITH],
        'technique': 'contract-based deductive verification (Verus) of the real Packet::from_bytes against an RFC 7252 grammar spec',
        'level_text': 'Unbounded proof: the verbatim body of Packet::from_bytes (extracted from /repo on every run) satisfies a postcondition stated over a recursive RFC 7252 section 3 parse spec, for byte strings of every length; absence of panics, overflow and out-of-bounds reads and termination are proof obligations of the same run.',
        'level_note': 'Trusted: Verus/Z3/vstd; LinkedList read as VecDeque (R1); std wrappers to_vec, from_be_bytes, entry().or_default().push_back(); the be16 macro contract (little-endian host). See evidence trusted_base.',
        'explanation': 'Packet::from_bytes, HeaderRaw::try_from, Header::from_raw, Header::get_token_length copied from /repo and verified against the RFC 7252 section 3 grammar (spec/wire.rs): rejects exactly the malformed datagrams, accepts every well-formed one (three-valued: lenient cases may be refused), returns exactly the grammar fields; in-bounds, overflow-free, terminating.',
    },
}

CHECKS['C05'] = {
    'level': 'proof',
    'units': ['tables', 'dot'],
    'kani': [],
    'technique': 'contract-based deductive verification (Verus) of the real conversion tables against registry spec functions transcribed from the RFCs/IANA; Kani for derived ordering and text form',
    'level_text': 'Complete over the finite domains: each From/TryFrom table of /repo is verified to equal a registry spec function transcribed independently from the RFCs (so a pair of numbers swapped consistently in both directions still fails), and the identity / one-to-one lemmas are proved over all u16 / u8 / usize numbers. Unit dot: Display for MessageClass writes class, a dot and the two-digit detail of the code byte (bit arithmetic verified), Header::get_code returns that text, Header::set_code stores class*32+detail of a well-formed text without tripping its assertions; theorem: for every code byte the text is c.dd (four characters) and set_code of it stores the same code.',
    'level_note': 'Trusted: Verus/Z3/vstd; the transcription in spec/registry.py is the reference (written from RFC 7252/7641/7959/7967/8132/8516/8613/8768 and the IANA content-format registry). Unit dot assumes std formatting and parsing: write! with {} and {:02} appends decimal(a), a dot, two-digit decimal(b); str::parse::<u8> accepts every string of decimal digits whose value fits; str::split; to_string() == the text Display::fmt writes.',
    'trusted': [T_VERUS, 'spec/registry.py is the independent transcription of the registries (hand written from the RFCs)', T_ARITH, 'unit dot: std formatting (write! with {} and {:02} on u8), str::parse::<u8>, str::split(char), ToString via Display - assumed contracts over the spec functions dec / dec2 / dec_val / split_on'],
    'explanation': 'From<u16>/From<CoapOption>, TryFrom<usize>/From<ContentFormat>, ObserveOption pair, From<u8>/From<MessageClass>, Header::get_type/set_type verified against registry spec functions; one-to-one lemmas.',
}

T_RT = 'the round-trip statements are lemmas over the contracts enc_post/dec_post (spec/pktview.rs) that units enc and dec prove on the real functions; the lemma unit itself contains no executable code'
CHECKS['C01'] = {
    'level': 'proof',
    'units': ['enc', 'dec', 'rt', 'acc'],
    'kani': [],
    'technique': 'contract-based deductive verification (Verus): encoder and decoder bodies against RFC 7252 spec functions, whole-view contracts on the assembling API, round trip as a lemma over the two contracts',
    'level_text': 'Unbounded proof: to_bytes* returns exactly wire(m) for the message m a Packet denotes (enc), from_bytes returns exactly parse(b) (dec), parse(wire(m)) == m for every well-formed m incl. all extension thresholds, repeated and cleared options and the marker (rt, lemma), and every mutator of the assembling API (header bit setters, set_token, add/set/clear option) changes exactly its field of the abstract view (acc), so the result does not depend on call order. Overflow freedom is proved, so overflow-checks on/off cannot differ.',
    'level_note': 'Trusted: Verus/Z3/vstd; R1 LinkedList as VecDeque; std wrappers (to_vec, be bytes, entry API, capacity model/raw copy); messages with token 0-8 bytes set through set_token, option values <= 65804 bytes, canonical codes; version argument 0-3. default-features/no-default/udp differ only in MAX_SIZE, the contracts are stated for an arbitrary limit.',
    'trusted': [T_VERUS, T_R1, T_TOVEC, T_BE, T_ENTRY, T_SLICE, T_ARITH, T_RT, 'see C04 for the capacity model'],
    'explanation': 'units enc + dec + rt + acc',
}
CHECKS['C02'] = {
    'level': 'proof',
    'units': ['dec', 'enc', 'rt'],
    'kani': [],
    'technique': 'contract-based deductive verification (Verus): decoder and encoder contracts on the real functions plus the lemma wire(parse(b)) == canon(b)',
    'level_text': 'Unbounded proof over all byte strings: whenever from_bytes accepts b it returns parse(b) (dec); to_bytes_unlimited of that packet is wire(parse(b)) (enc); and wire(parse(b)) == canon(b), where canon drops only a lone trailing marker and whatever follows the options of a 0.00 message (rt: theorem_c02_*), with injectivity as a corollary.',
    'level_note': 'Trusted: as C01; datagrams up to 2^28 bytes.',
    'trusted': [T_VERUS, T_R1, T_TOVEC, T_BE, T_ENTRY, T_SLICE, T_ARITH, T_RT],
    'explanation': 'units dec + enc + rt',
}
T_CAP = 'R6/R7 capacity model (assumed std guarantees): Vec::with_capacity(n)/reserve(n) give capacity >= len+n and <= isize::MAX without changing contents; ptr::copy into spare capacity followed by set_len appends the copied bytes. The memory-safety condition of each unsafe block (source lengths, offsets, new length <= capacity, no uninitialised byte below the new length) is the PRECONDITION of the stub and is proved at each of the three call sites from the real argument expressions'
T_EQ = 'derived PartialEq on MessageClass/RequestType/ResponseType is structural equality (PartialEqSpecImpl, derived bodies checked by Verus)'
CHECKS['C04'] = {
    'level': 'proof',
    'units': ['enc'],
    'units_thorough': ['enc_udp'],
    'kani': [],
    'technique': 'contract-based deductive verification (Verus) of the real Packet::to_bytes_internal: exact size-limit iff, exact wire image, memory-safety preconditions of the unsafe copy blocks',
    'level_text': 'Unbounded proof over all packets and all limits: the verbatim body of to_bytes_internal (both option loops with inductive invariants over the BTreeMap iteration) returns Ok exactly when the RFC 7252 wire length is within the limit, the output is exactly the wire image (hence has exactly that length), errors are InvalidPacketLength, over-long option values are refused, and every unsafe copy stays inside reserved capacity.',
    'level_note': 'Trusted: Verus/Z3/vstd (incl. BTreeMap ascending iteration axioms); R1 LinkedList as VecDeque; the capacity model and the raw-copy stub (the unsafe blocks themselves are not executed by the verifier: their safety condition is the stub precondition); packets below 256 MiB per field; hand-built non-canonical codes such as Reserved(0) excluded (code_canonical).',
    'trusted': [T_VERUS, T_R1, T_CAP, T_EQ, T_BE, T_ARITH, 'precondition: token and payload each <= 2^28 bytes; header code canonical (class_of_u8(u8_of_class(c)) == c)'],
    'explanation': 'to_bytes_internal, to_bytes, to_bytes_with_limit, to_bytes_unlimited, HeaderRaw::serialize_into, Header::to_raw under contract enc_post (units/enc.py).',
}

T_KANI = 'Kani 0.68 / CBMC 6.11 (bit-precise); alloc::fmt::format stubbed in harnesses (error message text is not part of any property)'
def _k(name, claim, kind='complete', bound='', timeout=600):
    return {'name': name, 'kind': kind, 'bound': bound, 'claim': claim, 'timeout': timeout}

CHECKS['C13'] = {
    'level': 'proof',
    'units': [],
    'kani': [
        _k('block_codec_roundtrip', 'all num:u16 x more x szx<=7: encoding == minimal uint of NUM<<4|M<<3|SZX, decode(encode(v)) == v'),
        _k('block_decode_all_short_strings', 'all byte strings of length <= 5: decode == triple of the big-endian value (<= 3 bytes always; 4 bytes iff NUM fits u16; 5 bytes error)'),
        _k('block_size_is_power', 'size() == 2^(SZX+4) for szx 0..7'),
        _k('block_new_contract', 'all (num, size) in usize x usize: largest power of two <= size but >= 16; Err iff size == 0, size >= 4096 or num > 65535'),
    ],
    'technique': 'Kani/CBMC contract harnesses on the real BlockValue functions over their full input domains (loops bounded by operand width, unwinding assertions on)',
    'level_text': 'Complete: each harness quantifies symbolically over the whole domain (48-bit triple space; all strings up to 5 bytes; usize x usize), loops are bounded by the operand width (8 bytes / 64 bits) with unwinding assertions, so a successful run is a proof, and a failing one yields a concrete counterexample via concrete playback.',
    'level_note': 'Trusted: Kani/CBMC; error-message formatting stubbed. Size exponents above 7 (not producible by decode or new) are outside the claim.',
    'trusted': [T_KANI],
    'explanation': 'BlockValue::new/size/From/TryFrom',
}
CHECKS['C06'] = {
    'level': 'proof',
    'units': ['acc', 'lst'],
    'kani': [
        _k('uint_encode_u8', 'all u8: shortest big-endian form, decode(encode) == v'), _k('uint_decode_u8', 'all strings <= 3 bytes: value or error by length'),
        _k('uint_encode_u16', 'all u16'), _k('uint_decode_u16', 'all strings <= 4 bytes'),
        _k('uint_encode_u32', 'all u32'), _k('uint_decode_u32', 'all strings <= 6 bytes'),
        _k('uint_encode_u64', 'all u64'), _k('uint_decode_u64', 'all strings <= 10 bytes'),
    ],
    'technique': 'Kani/CBMC complete harnesses on the real option_value conversions (all values of all four widths) + Verus whole-view contracts on the Packet accessors',
    'level_text': 'Complete for unsigned values: for every value of every width the encoding equals an independently written minimal big-endian reference and decodes back; every byte string up to width+2 decodes to its big-endian value or is rejected exactly when longer than the width (the rejection branch does not read the contents). The raw and typed Packet accessors are verified in Verus for all packets: they store exactly into(value) / return exactly try_from(stored value), element order preserved. Unit lst: set_options_as stores one into(element) per element in order and replaces only that option; get_options_as returns one try_from(stored value) per stored value in order; the text option value encodes with String::into_bytes and decodes with String::from_utf8 (Ok exactly for valid UTF-8), so every string round-trips.',
    'level_note': 'Trusted: Kani/CBMC, Verus/Z3/vstd, R1. Unit lst assumes: String::from_utf8 / into_bytes are inverse on text (axioms over utf8_text / utf8_bytes; std UTF-8 validation itself is not re-verified) and `iter().map(f).collect()` yields f(element i) at position i (wrapper R33; the closures are the real ones).',
    'trusted': [T_KANI, T_VERUS, T_R1, 'unit lst: String::from_utf8 / String::into_bytes (assumed inverse on text), iter().map(f).collect() read as a map-and-collect wrapper (R33), constructor passed as function eta-expanded (R31), FromUtf8Error::to_string stubbed'],
    'not_covered': ['the UTF-8 validation inside std (String::from_utf8) is trusted, not verified', 'OptionValueU8 / OptionValueU64 Packet-level instances (the conversions themselves are covered by Kani)'],
    'explanation': 'option_from_uint/option_to_uint through the four public wrapper types; Packet::{add_option,get_option,get_first_option,set_option,clear_option,add_option_as,get_first_option_as,set_options_as,get_options_as}; OptionValueString conversions',
}
CHECKS['C05']['kani'] = [_k('is_error_iff_byte_ge_0x80', 'all 256 code bytes through the real From<u8> and the derived PartialOrd: is_error() == (byte >= 0x80)')]
CHECKS['C05']['trusted'].append(T_KANI)
CHECKS['C05']['not_covered'] = ['std number formatting and parsing themselves (assumed contracts in unit dot; the bounded Kani attempt on the fmt machinery gave no verdict in 435 s, DESIGN.md Appendix B)']

T_CLOS = 'closure literals passed to Option/Result combinators carry spliced contracts (R18), bodies verbatim; assumed std specs: Result::map_or, String::into_bytes (opaque utf8_of), VecDeque::front'
T_DEF = 'R27: #[derive(Default)] on Packet expanded to the impl rustc generates (each field Default::default())'
T_UINT = 'option_from_uint/option_to_uint are not read by Verus: their contracts (shortest big-endian form / big-endian value or error by length) are proved on the real functions for all values of all four widths by the Kani harnesses uint_encode_* / uint_decode_* and assumed in the Verus units (modular composition)'
CHECKS['C07'] = {
    'level': 'proof',
    'units': ['resp7'],
    'kani': [],
    'technique': 'contract-based deductive verification (Verus) of CoapResponse::new, CoapRequest::from_packet and apply_from_error with whole-message postconditions',
    'level_text': 'Unbounded proof over all request packets (any header byte, code, message id, token 0-8 bytes, options, payload): a response is prepared iff the type bits are CON/NON; it has version 1, ACK for CON / NON for NON, the request message id and token (and TKL), code 2.05, no options, no payload. apply_from_error returns true iff there is a response and the error has a code, sets the error code and the diagnostic payload then, and in every case changes at most code, payload and the Content-Format option of an existing reply (never version, type, message id, token or another option; the code only when the error has one).',
    'level_note': 'Trusted: Verus/Z3/vstd; R1; R27; closure contracts (R18); String::into_bytes is opaque (payload == utf8_of(message)); uint conversion contracts proved by Kani (C06).',
    'trusted': [T_VERUS, T_R1, T_DEF, T_CLOS, T_UINT, T_EQ if 'T_EQ' in dir() else 'derived PartialEq structural'],
    'explanation': 'unit resp',
}
CHECKS['C19'] = {
    'level': 'proof',
    'units': ['resp', 'path', 'gpv', 'cmv', 'cmv2'],
    'kani': [],
    'technique': 'contract-based deductive verification (Verus) of the method/status/content-format/observe accessors against the raw message view',
    'level_text': 'Proof for the claimed accessors, for all packets (whatever was stored before): get/set_method and get/set_status agree with the code field for every variant and every code byte (unnamed ones read as UnKnown); set_content_format replaces the Content-Format option by the minimal uint of the registry id and get_content_format returns the registry entry of the option value when there is exactly one, as the setter leaves it (None if absent or unassigned; never a named format the first value does not denote); set_observe_flag / get_observe_flag likewise through the Observe option (one value: values longer than 4 bytes or other than 0/1 give Err). Unit path: set_path(s) leaves exactly the pieces of s between \'/\' (minus the empty piece before a leading \'/\') as Uri-Path values, in order, and nothing else changed; get_path returns the values joined by \'/\' when they are all text (everything set_path can store); theorem: get_path after set_path(s) returns s without one leading \'/\', for every string. Units cmv / cmv2 (coap-message 0.3 / 0.2 views): code() / payload() return the header code and the payload, set_code / set_payload / add_option write exactly those fields (add_option appends to the list of its option number), and the option iterator options() / MessageOptionAdapter::next yields every stored value exactly once as (number, value), grouped by number in ascending number order, values in their stored order, and terminates.',
    'level_note': 'Trusted: as C07. Unit path assumes contracts for the std string functions (str::split(char) == split_on, [&str]::join == join_with, as_bytes/from_utf8 inverse on text, is_empty, to_string) and reads `for (i, s) in segs.enumerate()` as the equivalent index loop (R32). Units cmv/cmv2 read each `impl Trait for Packet` block of impl_coap_message*.rs as an inherent impl with methods renamed cm_* (R39): the traits are declared in an external crate that a single-file Verus run cannot link; the crate\'s generic copy routine (set_from_message) is external code and not verified. NOT covered (reported in evidence): get_path_as_vec and the remaining coap-message 0.2/0.3 trait views (external crates cannot be linked into single-file Verus; packet-level Kani harnesses too expensive).',
    'trusted': [T_VERUS, T_R1, T_DEF, T_CLOS, T_UINT, 'std string functions used by set_path/get_path (str::split(char), Enumerate, str::is_empty, str::as_bytes, core::str::from_utf8, [&str]::join, str::to_string): contracts assumed in unit path over the spec functions split_on / join_with / utf8_bytes / utf8_text (UTF-8 decoding inverts encoding: axiom)'],
    'not_covered': ['coap-message: mutate_options (nested iter_mut with a callback), the result slice of payload_mut_with_len (only panic freedom is checked) and the external crate\'s generic copy routine set_from_message'],
    'explanation': 'units resp and path (both include the accessor layer of unit acc)',
}

CHECKS['C18'] = {
    'level': 'proof',
    'units': ['lfw'],
    'kani': [],
    'technique': 'contract-based deductive verification (Verus) of the link-format writer instantiated at a sink that can fail at any write call; sticky-error invariant plus a prefix relation on the text the sink holds',
    'level_text': 'Unbounded proof over all documents, all method-call sequences and all failure points (each sink call may fail, once or persistently, even after accepting part of its text): every writer method preserves the invariant "no call was issued after the first failure, and a failure is remembered in the error slot", both finish() methods return Err iff the slot is set (hence whenever a write failed), and each method satisfies step(): the sink text grows by a prefix of the method\'s fault-free output, by all of it when nothing failed; lemma_step_compose lifts this to whole documents.',
    'level_note': 'Trusted: Verus/Z3/vstd; R14 the type parameter T: fmt::Write is instantiated at the ghost-logged Sink; R15 write!(w, "{}", x) issues sink writes spelling Display(x) and stops at the first failure (std formatting); R13 `mut self` desugaring; R16 debug_assert dropped; R17 `value.find(|c| PRED).is_some()` read as str_any_char(value, closure) with the predicate of the closure translated into the spec predicate attr_quotes (char class methods through the wrappers of spec/charclass.rs); Result::and specified.',
    'trusted': [T_VERUS, 'R13-R17 (see DESIGN.md 2.2)', 'char class wrappers of spec/charclass.rs (is_ascii*, is_whitespace, is_alphanumeric) and str_any_char (== str::find(closure).is_some())', 'the Sink model: write_char/write_str/write_display_* may fail nondeterministically; on failure the text grows by a prefix of the argument'],
    'explanation': 'LinkFormatWrite::{new,set_add_newlines,link,finish}, LinkAttributeWrite::{internal_attr_key_eq,attr,attr_u32,attr_u16,attr_quoted,finish}',
}

T_OBS = ['assumed closure-parametric std contracts (DESIGN.md A.3): BTreeMap::entry / Entry::or_insert / Entry::and_modify (prophetic), Vec::retain (existential filter form); R28 wrappers vec_position / vec_for_each_mut / vec_find_mut over the vector view; R30 `for (k, v) in map.iter_mut() { BODY }` read as btree_for_each_mut(&mut map, |k, v| BODY) (BTreeMap::iter_mut has no vstd model); R29 Vec<u8> == [u8]',
         'assumptions on the generic Endpoint, stated as preconditions (ep_ok): == agrees with spec equality, clone() returns an equal value; String keys: std Ord is a total order (vstd laws_cmp) and Strings with equal characters are the same key',
         'requests are abstracted to (source, path string, token, message id): get_path() is a function of the request (C19 path accessors are not verified)',
         'coap_info!/coap_debug! macros read from log.rs (no-log variant)']
CHECKS['C14'] = {
    'level': 'proof',
    'units': ['obs'],
    'kani': [],
    'technique': 'contract-based deductive verification (Verus) of Subject::register / deregister / resource_changed / acknowledge read verbatim, with whole-view postconditions and a data-structure invariant (one observer per endpoint)',
    'level_text': 'Unbounded proof per operation, for all registry states, endpoints, tokens and paths: register replaces the observer of the same endpoint in place (token, cleared counters) or appends a new one, creating the resource if needed (an existing resource keeps its sequence number); deregister removes exactly the first observer whose endpoint AND token match on that path and nothing else; resource_changed for an unobserved path leaves the map unchanged; acknowledge changes no endpoint, token or order (only the counter and pending id of the first matching observer per resource); every operation changes only the entry of its own path (final map == old map with that one entry replaced) and preserves "endpoints pairwise distinct per resource". The history statement of C14 follows by induction over operations from these per-operation contracts.',
    'level_note': 'Trusted: see trusted_base. Subject::acknowledge is read with its loop turned into a for_each wrapper call (R30).',
    'trusted': [T_VERUS] + T_OBS,
    'explanation': 'unit obs',
}
CHECKS['C15'] = {
    'level': 'proof',
    'units': ['obs', 'resp15'],
    'kani': [],
    'technique': 'contract-based deductive verification (Verus) of Subject::resource_changed and acknowledge (closures verbatim with spliced contracts) and create_notification',
    'level_text': 'Unbounded proof: each notification round on an observed resource sets sequence := sequence + 1, stamps every observer with the message id, adds 1 to its counter iff the round is confirmable, and keeps exactly (in order) the observers whose counter is <= the limit, for every limit 0..255; an acknowledgement resets exactly the first observer of each resource whose endpoint matches and whose pending message id is the acknowledged one (count := 0, pending id cleared), any other acknowledgement changes nothing; the counter addition is proved overflow-free from the invariant that between operations every stored counter is <= the configured limit <= 255 (so whatever the limit and however long the history; the limit is taken as fixed within a history, as in the property - set_unacknowledged_limit in the middle of a history is not covered). create_notification yields version 1, CON/NON, 2.05, the given message id, token and payload and a single Observe option with the minimal uint of the sequence number.',
    'level_note': 'Trusted: see trusted_base. Precondition: fewer than 2^32 rounds per resource (u32 sequence).',
    'trusted': [T_VERUS] + T_OBS + [T_UINT, T_R1, T_DEF],
    'explanation': 'units obs + resp(create_notification)',
}

T_BLK = ['callee contracts assumed in unit blk and justified elsewhere: BlockValue codec/size()/new() and negotiate_block_size_if_necessary by the complete Kani harnesses (C13, negotiate_*), compute_message_size_hack by the encoder contract of unit enc',
         'R19 chunks(size).skip(n) cursor, R21 extending_splice at its call site (zero-extend then replace [a,b) by the payload; refuses growth beyond 16 KiB), R20 set_options_as with a one-element list, R24 lru_time_cache as a per-key map whose entry may come back as default (expiry) and whose other entries are never modified',
         'R9 HandlingError constructors reduced to the response code they set; R22/R23 clone_from / ref patterns desugared; derived Clone of Packet/BlockValue/LinkedList is field-wise',
         'the cache key is abstract (key_of); RequestCacheKey::from (method, path segments, source) is not verified']
_BLK_NOTE = 'Trusted: Verus/Z3/vstd; the accessor layer is verified in the same unit (see C01/C06); see trusted_base for the assumed callee contracts and rules R19-R24.'
CHECKS['C09'] = {
    'level': 'proof', 'units': ['blk'],
    'kani': [_k('negotiate_within_budget', 'the callee contract used for the 4.13 / size-hint decision: for budgets overhead+28..1280 a request is left unfragmented only if it fits the budget (payload + overhead + payload marker <= budget); size hints are powers of two 16..1024 within the budget', timeout=900)],
    'technique': 'contract-based deductive verification (Verus) of maybe_handle_request_block1 read verbatim, against contracts of its callees; step contract over request, response and per-key state',
    'level_text': 'Unbounded proof of the Block1 step for all requests and states: a non-final block (num, szx) with a full payload p that starts inside or at the end of the buffered data leaves `buffer[0, num*size) ++ p` as the prefix of the buffer (what lies beyond is left open); a non-final block is answered 2.31 Continue with a Block1 option and does not reach the application (Ok(true), request untouched); the final block hands the application buffer[0, num*size) ++ p (zero-filled if the buffer is shorter; payload replaced, buffer released) and adds the Block1 acknowledgement; without a Block1 option an oversized request is answered 4.13 with a Block1 size hint. The upload history (in order, blocks delivered again, over an abandoned upload) follows by induction from the step contract: lemma_b1_step_prefix is the induction step, theorem_c09_upload_delivers_body the conclusion (same unit).',
    'level_note': _BLK_NOTE + ' Known finding D8 (duplicate FINAL block re-delivers a body) is outside the step contract and listed in known_findings.txt.',
    'trusted': [T_VERUS, T_R1] + T_BLK,
    'explanation': 'unit blk',
}
CHECKS['C08'] = {
    'level': 'proof', 'units': ['blk'], 'kani': [],
    'technique': 'contract-based deductive verification (Verus) of maybe_serve_cached_response, packet_clone_limited (loop invariant over the BTreeMap iteration), maybe_handle_request_block2, intercept_response read verbatim',
    'level_text': 'Unbounded proof of the Block2 steps for all bodies, block numbers and sizes: block n of size s of the cached body exists iff n*s < len or n == 0 (an empty body is one empty block), carries exactly bytes [n*s, min((n+1)*s, len)), has the more flag set iff (n+1)*s < len, echoes number and size, and repeats every option of the cached reply; a follow-up request (block number above 0) with a cached reply is served without consulting the application and the cache entry is released exactly when the block served was the last; a request without Block2 or without a cached reply passes through untouched.',
    'level_note': _BLK_NOTE,
    'trusted': [T_VERUS, T_R1] + T_BLK,
    'explanation': 'unit blk',
}
CHECKS['C11'] = {
    'level': 'proof', 'units': ['blk', 'neg'],
    'kani': [_k('negotiate_never_panics', 'all budgets 0..usize::MAX, overheads, payload sizes, client blocks: returns Ok or Err(code Some), no division by zero / overflow', timeout=900)],
    'technique': 'Verus panic-freedom of the verbatim handler glue (every unwrap, index, arithmetic operation is an obligation) + complete Kani harness for the block-size arithmetic',
    'level_text': 'Proof: intercept_request, intercept_response and the four step functions return normally for every request, reply, state and budget (Verus: no unwrap of None, no overflow, no out-of-range index; Kani: the negotiation arithmetic for every budget from 0); every Err carries a response code unless there is no prepared response to render it into; a Block1 block whose end lies more than 16 KiB beyond the buffer is rejected with the buffer unchanged, and an accepted block grows the buffer by at most 16 KiB plus its payload.',
    'level_note': _BLK_NOTE + ' Precondition: stored states satisfy the data-structure invariant (established by BlockHandler::new: empty cache).',
    'trusted': [T_VERUS, T_R1, T_KANI] + T_BLK,
    'explanation': 'unit blk + kani negotiate_never_panics',
}
CHECKS['C10'] = {
    'level': 'proof', 'units': ['blk', 'msz', 'neg'],
    'kani': [_k('negotiate_within_budget', 'all client blocks, overheads, payload sizes and every budget M with overhead+28 <= M <= 1280: chosen size is a power of two 16..1024, <= the client size, size + overhead + 12 <= M; the client size is kept (with its block number) when it fits with 32 bytes to spare; unfragmented only if payload + overhead + 12 < M', timeout=900)],
    'technique': 'Kani complete harness for the block-size arithmetic + Verus: overhead measurement against the encoder contract, glue contracts tying the served block / Block1 reply to the negotiation result, lemma bounding the growth of the encoding by the Block option and marker',
    'level_text': 'Proof: (1) Kani, complete over all inputs in the property budget range, proves the arithmetic contract neg_post of negotiate_block_size_if_necessary; (2) Verus proves compute_message_size_hack returns the exact encoded size without payload plus the payload length (msz, against the encoder contract of C04); (3) Verus proves, on the verbatim glue, that the block served by intercept_response and the Block1 value acknowledged by maybe_handle_request_block1 are exactly that negotiation result and that a reply left unfragmented satisfies payload + overhead + 12 < M (blk); (4) lemma: one extra Block option with a value of <= 3 bytes plus the payload marker grow the encoding by <= 12 bytes, so the fragmented reply encodes within overhead + 12 + size <= M (msz: theorem_c10_fragment_fits).',
    'level_note': _BLK_NOTE + ' The arithmetic contract neg_post is proved twice on the real function: by Verus on its verbatim body (unit neg, given the BlockValue::new/size contracts) and, as assertions, by the complete Kani harness. The statement about the client next upload block is the arithmetic one (size + request overhead + 12 <= M).',
    'trusted': [T_VERUS, T_R1, T_KANI] + T_BLK,
    'explanation': 'units blk + msz, kani negotiate_within_budget',
}
CHECKS['C12'] = {
    'level': 'proof', 'units': ['blk', 'key', 'gpv'], 'kani': [],
    'technique': 'Verus frame conditions on the verbatim entry points: only the state under the request key is touched; replies keep message id, token and token length of the current request; RequestCacheKey::from verified to store (a byte that separates methods - the method byte or the request code byte -, path segments, endpoint) with a lemma that requests differing in method, path or endpoint get keys that differ',
    'level_text': 'Proof relative to the cache contract (R24): intercept_request / intercept_response read and write only the state stored under key_of(request) - every other key keeps its state (or expires) - so transfers with different keys cannot observe each other; and on every path, including blocks served from the cache via packet_clone_limited, the reply keeps the message id, token and token-length field that CoapResponse::new took from the request being answered.',
    'level_note': _BLK_NOTE + ' Unit key: the real From<&CoapRequest> impl of RequestCacheKey is verified (fields == (method byte or code byte, decoded Uri-Path segments in order, clone of source)); lemma_keys_differ: two requests whose keys agree in all fields agree in method, segment list and endpoint (segmentation included: the key holds the list, not a joined string). The contract of get_path_as_vec that unit key relies on (Ok(decoded segments in order) iff every Uri-Path value is valid UTF-8) is proved on the real function in unit gpv (iterator map/collect read through wrappers R33/R33b with the real closures); assumed: String::from_utf8 semantics (utf8_text) and that the derived Ord/Eq of the key struct are field-wise. The composition blk.key_of == id of these fields is by construction of the cache abstraction, not proved.',
    'trusted': [T_VERUS, T_R1] + T_BLK,
    'not_covered': ['the external lru_time_cache behaves as a per-key map', 'a Uri-Path that is not valid UTF-8 is keyed like the empty path (outside the quantifier of C12)'],
    'explanation': 'units blk, key',
}

CHECKS['C17'] = {
    'level': 'proof',
    'units': ['unq', 'lfp'], 'kani': [],
    'technique': 'contract-based deductive verification (Verus) of the verbatim LinkFormatParser::next, LinkAttributeParser::next and Unquote::next / to_cow / is_quoted / new over an axiomatic byte-offset model of str',
    'level_text': 'Unbounded proof, for every input string: (unit lfp) each call of LinkFormatParser::next and LinkAttributeParser::next terminates and cannot panic - every slicing is at a character boundary and in range, every pointer difference is taken between a string and one of its suffixes - consumes a non-empty prefix of the remaining input whenever that is non-empty (so iterating terminates), yields only substrings of the consumed prefix, link before attributes and key before value (hence in left-to-right order over the whole iteration), and leaves nothing to iterate after an error or after None; (unit unq) for every remaining input and iterator state Unquote::to_cow returns exactly the text the character-by-character iterator yields (unterminated quoted strings and text after the closing quote included) without slicing off a boundary, and Unquote::next terminates, yields that text element by element and stays exhausted.',
    'level_note': 'Assumed (wrappers R34-R36, listed in trusted_base): the std string functions over an axiomatic byte-offset model (offsets strictly increase with the character index, start at 0, an ASCII character occupies one byte, suffix offsets shift; slicing / split_at are defined exactly at character boundaries; find returns the offset of the first occurrence; trim* return a sub-slice), Chars::as_str returns the remaining text and points into the string the iterator was made from, Chars::next per vstd plus an abstract decreasing measure, Cow construction, to_string() == collecting the iterator. Not covered: that the items are the RIGHT substrings for RFC 6690 (C17 does not ask for it), Display/PartialEq/into_raw_str.',
    'trusted': [T_VERUS, 'units unq/lfp: assumed contracts of Chars::as_str, Chars::next (wrapper with termination measure), str::{is_empty,len,find(char),rfind(char),starts_with(char),trim,trim_matches,trim_end_matches,split_at}, &s[a..] / &s[..b], char::is_ascii_whitespace, pointer difference of a suffix (suffix_offset) over the byte-offset axioms boff of spec/strmodel.rs; Cow::from; ToString for Unquote (== collecting the iterator); vstd specification of str::chars; derived PartialEq of UnquoteState read as structural; `for c in iter.by_ref()` desugared (R35)'],
    'not_covered': ['which substrings are yielded (RFC 6690 syntax) - not part of C17', 'Unquote::into_raw_str, PartialEq, Display (std fmt)'],
    'explanation': 'units unq, lfp',
}

CHECKS['C16'] = {
    'level': 'proof',
    'units': ['lfw', 'lfp', 'unq', 'lrt'], 'kani': [],
    'technique': 'contract-based deductive verification (Verus): exact functional contracts on the real link-format scanners and on Unquote, the writer text generated from the real writer (proved against it for C18), and the round trip as a theorem over those contracts',
    'level_text': 'Unbounded proof relative to the assumed std-string contracts: (unit lfp) each call of LinkFormatParser::next / LinkAttributeParser::next returns exactly lf_link / lf_attrs / lf_rest resp. la_key / la_value / la_rest of its input (clauses links-exact, attrs-exact, with the loop invariants that carry them); (unit unq) Unquote yields unq(NotStarted, text) character by character; (unit lfw) with no failing write the sink holds exactly the concatenation of out_link / out_quoted / out_plain / out_u32, texts generated from the write calls of the code; (unit lrt, lemmas only) for every document - any number of links whose targets contain no \'>\', any attributes whose keys contain no separator, quote or \'=\' and do not begin or end with white space, values written by attr_quoted (arbitrary text, escapes included), by attr (text free of separators and quotes, not beginning or ending with white space) or by attr_u32 - and both settings of the newline option: iterating the link scanner over the written text yields the same links in order, iterating the attribute scanner over each link\'s attribute text yields the same keys in order, and each value unquotes to the original string (theorem_written_roundtrip / theorem_link_format_roundtrip).',
    'level_note': 'Assumed: the std string functions over the byte-offset model (as C17), exact trim semantics (trim_*_matches strip every leading/trailing occurrence, trim() strips Unicode white space: uninterpreted predicate with the single fact that the double quote is not white space), integer formatting yields a non-empty string of characters that are neither separators, quotes nor white space, to_string() of an Unquote collects the iterator. The composition steps "iterating the exec scanners == parse_links / parse_attrs" and "sink text == written(d)" follow from the per-call contracts by induction over the call sequence; those two inductions are stated in the spec functions parse_links / parse_attrs / written, not proved on executable loops (there is no executable loop in the crate to prove them on). attr_u16 goes through attr_u32.',
    'trusted': [T_VERUS, 'as C17 (std str wrappers over spec/strmodel.rs, Chars::next wrapper)', 'as C18 (sink model, write! stubs)', 'unit lrt: axioms - the double quote is not white space; decimal digits text is non-empty and contains no separator, quote or white space', 'exact trim specifications in spec/strmodel.rs (trim_end_of / trim_start_of / trim_*_ws)'],
    'not_covered': ['the induction from per-call contracts to whole iterations / whole writer call sequences is by definition of parse_links / parse_attrs / written (spec level)', 'documents outside the stated domain (targets with \'>\', keys with separators, unquoted values with separators) - excluded by the property as well'],
    'explanation': 'units lfw, lfp, unq, lrt',
}

CHECKS['C20'] = {
    'level': 'other',
    'units': ['cch', 'blk'], 'kani': [],
    'technique': 'contract-based deductive verification (Verus) of the handler-side facts C20 depends on, over an ASSUMED contract of the external cache crate (lru_time_cache)',
    'level_text': 'Partial, and relative to an assumed dependency contract: how long cached state lives is decided inside the external crate lru_time_cache from the wall clock; that behaviour is assumed as the model of unit cch (entries idle longer than the expiry are purged on the next insertion and never returned, nothing else is evicted without a capacity bound, entry() refreshes), with retention / expiry / reclamation proved as lemmas over that model. What is verified on coap-lite\'s own code is the rest of the argument: BlockHandler::new builds the cache with exactly the configured duration and without a capacity bound (contract on the real constructor; the stand-in type offers the crate\'s three constructors, so a capacity-bounded or re-derived duration fails the clause cache-built-as-configured), the default configuration has a positive duration, and the handler touches the cache only through states.entry(key).or_insert(default) under the key of the request in hand (unit blk, rule R24: any other use of the cache field does not extract). Nothing about real time is checked.',
    'level_note': 'This is the weakest claim of the set: the time semantics is an assumption, not a result. It is registered because every change to coap-lite that can break C20 has to go through the constructor call or through a new use of the cache field, and both are decided here (exit 1 for the constructor, exit 2 for an unreadable new use).',
    'trusted': [T_VERUS, 'the whole time behaviour of lru_time_cache::LruCache (assumed model in unit cch, from the crate documentation)', 'core::time::Duration: from_secs / from_millis / as_secs / as_millis over an abstract length in nanoseconds; equal length ==> equal value'] + T_BLK,
    'not_covered': ['the external crate lru_time_cache itself (expiry from Instant::now(), purge on insert, LRU order)', 'real elapsed time'],
    'explanation': 'units cch, blk',
}

HOOK_COMMITS = ['7321ffc', '9fef815']

NOT_APPLICABLE = [
]
_PENDING = 'check not built yet in this session (contract-based route planned in DESIGN.md section 4); not claimed until it passes on the reference tree and fails on seeded mutants'
for _p in ['C01','C02','C04','C05','C06','C07','C08','C09','C10','C11','C12','C13','C14','C15','C17','C18','C19']:
    if _p not in CHECKS:
        NOT_APPLICABLE.append({'property_id': _p, 'reason': _PENDING})

NOTES = 'Technique family: contract-based deductive verification of the real code (Verus on mechanically extracted functions, Kani on the compiled crate). exit 2 = undecided (lost anchor, unsupported construct, resource limit, vacuity) and is never a VIOLATION.'
