"""IANA / RFC registries transcribed by hand from the documents, independently
of /repo's source.  Used to generate the spec functions the real conversion
tables are verified against (C05).

Sources: RFC 7252 sections 12.1 (codes), 12.2 (option numbers), 12.3 (content
formats); RFC 7641 (Observe 6, register 0 / deregister 1); RFC 7959 (Block2
23, Block1 27, Size2 28, 2.31, 4.08); RFC 7967 (No-Response 258); RFC 8132
(FETCH 0.05, PATCH 0.06, iPATCH 0.07, 4.09, 4.22); RFC 8516 (4.29); RFC 8613
(OSCORE 9); RFC 8768 (5.08); IANA "CoAP Content-Formats" registry.
"""

REQUESTS = [(1, 'Get'), (2, 'Post'), (3, 'Put'), (4, 'Delete'), (5, 'Fetch'), (6, 'Patch'), (7, 'IPatch')]


def code(c, dd):
    return c * 32 + dd


RESPONSES = [
    (code(2, 1), 'Created'), (code(2, 2), 'Deleted'), (code(2, 3), 'Valid'), (code(2, 4), 'Changed'),
    (code(2, 5), 'Content'), (code(2, 31), 'Continue'),
    (code(4, 0), 'BadRequest'), (code(4, 1), 'Unauthorized'), (code(4, 2), 'BadOption'), (code(4, 3), 'Forbidden'),
    (code(4, 4), 'NotFound'), (code(4, 5), 'MethodNotAllowed'), (code(4, 6), 'NotAcceptable'),
    (code(4, 8), 'RequestEntityIncomplete'), (code(4, 9), 'Conflict'), (code(4, 12), 'PreconditionFailed'),
    (code(4, 13), 'RequestEntityTooLarge'), (code(4, 15), 'UnsupportedContentFormat'),
    (code(4, 22), 'UnprocessableEntity'), (code(4, 29), 'TooManyRequests'),
    (code(5, 0), 'InternalServerError'), (code(5, 1), 'NotImplemented'), (code(5, 2), 'BadGateway'),
    (code(5, 3), 'ServiceUnavailable'), (code(5, 4), 'GatewayTimeout'), (code(5, 5), 'ProxyingNotSupported'),
    (code(5, 8), 'HopLimitReached'),
]

OPTIONS = [
    (1, 'IfMatch'), (3, 'UriHost'), (4, 'ETag'), (5, 'IfNoneMatch'), (6, 'Observe'), (7, 'UriPort'),
    (8, 'LocationPath'), (9, 'Oscore'), (11, 'UriPath'), (12, 'ContentFormat'), (14, 'MaxAge'), (15, 'UriQuery'),
    (17, 'Accept'), (20, 'LocationQuery'), (23, 'Block2'), (27, 'Block1'), (28, 'Size2'), (35, 'ProxyUri'),
    (39, 'ProxyScheme'), (60, 'Size1'), (258, 'NoResponse'),
]

CONTENT_FORMATS = [
    (0, 'TextPlain'), (16, 'ApplicationCoseEncrypt0'), (17, 'ApplicationCoseMac0'), (18, 'ApplicationCoseSign1'),
    (19, 'ApplicationAceCbor'), (21, 'ImageGif'), (22, 'ImageJpeg'), (23, 'ImagePng'),
    (40, 'ApplicationLinkFormat'), (41, 'ApplicationXML'), (42, 'ApplicationOctetStream'), (47, 'ApplicationEXI'),
    (50, 'ApplicationJSON'), (51, 'ApplicationJsonPatchJson'), (52, 'ApplicationMergePatchJson'),
    (60, 'ApplicationCBOR'), (61, 'ApplicationCWt'), (62, 'ApplicationMultipartCore'), (63, 'ApplicationCborSeq'),
    (96, 'ApplicationCoseEncrypt'), (97, 'ApplicationCoseMac'), (98, 'ApplicationCoseSign'),
    (101, 'ApplicationCoseKey'), (102, 'ApplicationCoseKeySet'),
    (110, 'ApplicationSenmlJSON'), (111, 'ApplicationSensmlJSON'), (112, 'ApplicationSenmlCBOR'),
    (113, 'ApplicationSensmlCBOR'), (114, 'ApplicationSenmlExi'), (115, 'ApplicationSensmlExi'),
    (140, 'ApplicationYangDataCborSid'), (256, 'ApplicationCoapGroupJson'), (271, 'ApplicationDotsCbor'),
    (272, 'ApplicationMissingBlocksCborSeq'), (280, 'ApplicationPkcs7MimeServerGeneratedKey'),
    (281, 'ApplicationPkcs7MimeCertsOnly'), (284, 'ApplicationPkcs8'), (285, 'ApplicationCsrattrs'),
    (286, 'ApplicationPkcs10'), (287, 'ApplicationPkixCert'), (290, 'ApplicationAifCbor'), (291, 'ApplicationAifJson'),
    (310, 'ApplicationSenmlXML'), (311, 'ApplicationSensmlXML'), (320, 'ApplicationSenmlEtchJson'),
    (322, 'ApplicationSenmlEtchCbor'), (340, 'ApplicationYangDataCbor'), (341, 'ApplicationYangDataCborName'),
    (432, 'ApplicationTdJson'), (836, 'ApplicationVoucherCoseCbor'), (10000, 'ApplicationVndOcfCbor'),
    (10001, 'ApplicationOscore'), (10002, 'ApplicationJavascript'), (11050, 'ApplicationJsonDeflate'),
    (11060, 'ApplicationCborDeflate'), (11542, 'ApplicationVndOmaLwm2mTlv'), (11543, 'ApplicationVndOmaLwm2mJson'),
    (11544, 'ApplicationVndOmaLwm2mCbor'), (20000, 'TextCss'), (30000, 'ImageSvgXml'),
]

MESSAGE_TYPES = [(0, 'Confirmable'), (1, 'NonConfirmable'), (2, 'Acknowledgement'), (3, 'Reset')]
OBSERVE = [(0, 'Register'), (1, 'Deregister')]


def _unknown_for_ff():
    import os, re
    repo = os.environ.get('VERIF_REPO_UNDER_TEST', '/repo')
    try:
        src = open(os.path.join(repo, 'src', 'header.rs')).read()
    except OSError:
        return None
    m = re.search(r'impl From<u8> for MessageClass \{.*?\n\}', src, re.S)
    if not m or 255 in [k for k, _ in REQUESTS + RESPONSES]:
        return None
    a = re.search(r'(?:0xFF|0xff|255)\s*=>\s*MessageClass::(Request\(RequestType::UnKnown\)|Response\(ResponseType::UnKnown\))', m.group(0))
    return a.group(1) if a else None


def class_spec():
    """spec fns class_of_u8 / u8_of_class (code byte <-> MessageClass)."""
    chain = 'if n == 0 { MessageClass::Empty }'
    for k, v in REQUESTS:
        chain += ' else if n == %d { MessageClass::Request(RequestType::%s) }' % (k, v)
    for k, v in RESPONSES:
        chain += ' else if n == %d { MessageClass::Response(ResponseType::%s) }' % (k, v)
    # C05 lets an UNASSIGNED number be reported as unknown, reserved or invalid - anything but a named value.  The crate has
    # one "unknown" per class, both written back as 0xFF; if the tree under test reports the (unassigned) byte 0xFF that way
    # instead of Reserved(0xFF), the spec follows it.  Any other treatment of an unassigned byte stays a mismatch.
    unk = _unknown_for_ff()
    if unk:
        chain += ' else if n == 255 { MessageClass::%s }' % unk
    chain += ' else { MessageClass::Reserved(n) }'
    back = ('match c { MessageClass::Empty => 0u8, MessageClass::Reserved(x) => x, '
            'MessageClass::Request(RequestType::UnKnown) => 0xFFu8, MessageClass::Response(ResponseType::UnKnown) => 0xFFu8,')
    for k, v in REQUESTS:
        back += ' MessageClass::Request(RequestType::%s) => %du8,' % (v, k)
    for k, v in RESPONSES:
        back += ' MessageClass::Response(ResponseType::%s) => %du8,' % (v, k)
    back += ' }'
    return '''
// ---- code registry (generated from spec/registry.py, transcribed from the RFCs) ----
pub open spec fn class_of_u8(n: u8) -> MessageClass { %s }
pub open spec fn u8_of_class(c: MessageClass) -> u8 { %s }
impl FromSpecImpl<u8> for MessageClass {
    open spec fn obeys_from_spec() -> bool { true }
    open spec fn from_spec(n: u8) -> Self { class_of_u8(n) }
}
impl FromSpecImpl<MessageClass> for u8 {
    open spec fn obeys_from_spec() -> bool { true }
    open spec fn from_spec(c: MessageClass) -> Self { u8_of_class(c) }
}
// #[derive(PartialEq)] is structural equality (rustc's derive; the derived bodies are checked
// against these specs by Verus)
impl vstd::std_specs::cmp::PartialEqSpecImpl for RequestType {
    open spec fn obeys_eq_spec() -> bool { true }
    open spec fn eq_spec(&self, other: &RequestType) -> bool { *self == *other }
}
impl vstd::std_specs::cmp::PartialEqSpecImpl for ResponseType {
    open spec fn obeys_eq_spec() -> bool { true }
    open spec fn eq_spec(&self, other: &ResponseType) -> bool { *self == *other }
}
impl vstd::std_specs::cmp::PartialEqSpecImpl for MessageClass {
    open spec fn obeys_eq_spec() -> bool { true }
    open spec fn eq_spec(&self, other: &MessageClass) -> bool { *self == *other }
}
''' % (chain, back)


def option_spec():
    chain = ''
    for k, v in OPTIONS:
        chain += 'if n == %d { CoapOption::%s } else ' % (k, v)
    chain += '{ CoapOption::Unknown(n) }'
    back = 'match o {'
    for k, v in OPTIONS:
        back += ' CoapOption::%s => %du16,' % (v, k)
    back += ' CoapOption::Unknown(x) => x, }'
    return '''
// ---- option-number registry (generated from spec/registry.py) ----
pub open spec fn option_of_u16(n: u16) -> CoapOption { %s }
pub open spec fn u16_of_option(o: CoapOption) -> u16 { %s }
impl FromSpecImpl<u16> for CoapOption {
    open spec fn obeys_from_spec() -> bool { true }
    open spec fn from_spec(n: u16) -> Self { option_of_u16(n) }
}
impl FromSpecImpl<CoapOption> for u16 {
    open spec fn obeys_from_spec() -> bool { true }
    open spec fn from_spec(o: CoapOption) -> Self { u16_of_option(o) }
}
''' % (chain, back)


def content_format_spec():
    chain = ''
    for k, v in CONTENT_FORMATS:
        chain += 'if n == %d { Ok(ContentFormat::%s) } else ' % (k, v)
    chain += '{ Err(InvalidContentFormat) }'
    back = 'match f {'
    for k, v in CONTENT_FORMATS:
        back += ' ContentFormat::%s => %dusize,' % (v, k)
    back += ' }'
    return '''
// ---- content-format registry (generated from spec/registry.py) ----
pub open spec fn cf_of_usize(n: usize) -> Result<ContentFormat, InvalidContentFormat> { %s }
pub open spec fn usize_of_cf(f: ContentFormat) -> usize { %s }
impl TryFromSpecImpl<usize> for ContentFormat {
    open spec fn obeys_try_from_spec() -> bool { true }
    open spec fn try_from_spec(n: usize) -> Result<Self, InvalidContentFormat> { cf_of_usize(n) }
}
impl FromSpecImpl<ContentFormat> for usize {
    open spec fn obeys_from_spec() -> bool { true }
    open spec fn from_spec(f: ContentFormat) -> Self { usize_of_cf(f) }
}
''' % (chain, back)


def observe_spec():
    return '''
// ---- observe action registry (RFC 7641) ----
pub open spec fn observe_of_usize(n: usize) -> Result<ObserveOption, InvalidObserve> {
    if n == 0 { Ok(ObserveOption::Register) } else if n == 1 { Ok(ObserveOption::Deregister) } else { Err(InvalidObserve) }
}
pub open spec fn usize_of_observe(o: ObserveOption) -> usize { match o { ObserveOption::Register => 0usize, ObserveOption::Deregister => 1usize } }
impl TryFromSpecImpl<usize> for ObserveOption {
    open spec fn obeys_try_from_spec() -> bool { true }
    open spec fn try_from_spec(n: usize) -> Result<Self, InvalidObserve> { observe_of_usize(n) }
}
impl FromSpecImpl<ObserveOption> for usize {
    open spec fn obeys_from_spec() -> bool { true }
    open spec fn from_spec(o: ObserveOption) -> Self { usize_of_observe(o) }
}
'''
