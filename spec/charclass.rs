// ---- character classes used by link_format.rs (std `char` methods; the ASCII ones spelled out, Unicode White_Space left abstract)
pub uninterp spec fn is_uws(c: char) -> bool;      // char::is_whitespace (Unicode White_Space)
pub uninterp spec fn is_ualnum(c: char) -> bool;   // char::is_alphanumeric (Unicode)
pub open spec fn is_ascii_char(c: char) -> bool { (c as u32) < 128 }
pub open spec fn is_ascii_digit(c: char) -> bool { '0' <= c <= '9' }
pub open spec fn is_ascii_alpha(c: char) -> bool { ('a' <= c <= 'z') || ('A' <= c <= 'Z') }
pub open spec fn is_ascii_alnum(c: char) -> bool { is_ascii_digit(c) || is_ascii_alpha(c) }
pub open spec fn is_ascii_ws(c: char) -> bool { c == ' ' || c == '\t' || c == '\n' || c == '\x0C' || c == '\r' }
pub open spec fn is_ascii_punct(c: char) -> bool { ('!' <= c <= '/') || (':' <= c <= '@') || ('[' <= c <= '`') || ('{' <= c <= '~') }
// ASCII letters and digits are not white space (fact of Unicode, assumed)
pub broadcast axiom fn axiom_alnum_not_ws(c: char) requires is_ascii_alnum(c) ensures !#[trigger] is_uws(c);
#[verifier::external_body] pub fn char_is_ascii(c: char) -> (r: bool) ensures r == is_ascii_char(c) { unimplemented!() }
#[verifier::external_body] pub fn char_is_ascii_alphanumeric(c: char) -> (r: bool) ensures r == is_ascii_alnum(c) { unimplemented!() }
#[verifier::external_body] pub fn char_is_ascii_alphabetic(c: char) -> (r: bool) ensures r == is_ascii_alpha(c) { unimplemented!() }
#[verifier::external_body] pub fn char_is_ascii_digit(c: char) -> (r: bool) ensures r == is_ascii_digit(c) { unimplemented!() }
#[verifier::external_body] pub fn char_is_ascii_whitespace(c: char) -> (r: bool) ensures r == is_ascii_ws(c) { unimplemented!() }
#[verifier::external_body] pub fn char_is_ascii_punctuation(c: char) -> (r: bool) ensures r == is_ascii_punct(c) { unimplemented!() }
#[verifier::external_body] pub fn char_is_whitespace(c: char) -> (r: bool) ensures r == is_uws(c) { unimplemented!() }
#[verifier::external_body] pub fn char_is_alphanumeric(c: char) -> (r: bool) ensures r == is_ualnum(c) { unimplemented!() }
