// ---- assumed specifications of VecDeque methods missing from vstd (R1: they stand for the
//      LinkedList methods of the same name) ----
pub assume_specification<T, A: core::alloc::Allocator> [VecDeque::<T, A>::front] (v: &VecDeque<T, A>) -> (r: Option<&T>)
    ensures v@.len() == 0 ==> r is None, v@.len() > 0 ==> r is Some && *r->0 == v@[0];
