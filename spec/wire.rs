// ---- RFC 7252 section 3 framing, written from the RFC (not from the code) ----
pub open spec fn ext_len(nib: int) -> int { if nib == 13 { 1 } else if nib == 14 { 2 } else { 0 } }
pub open spec fn ext_val(b: Seq<u8>, at: int, nib: int) -> int {
    if nib < 13 { nib } else if nib == 13 { b[at] as int + 13 } else { (b[at] as int) * 256 + b[at + 1] as int + 269 }
}
// Option section starting at idx with previous option number prev:
//   None                   = malformed (nibble 15, truncated extension / value, number > 65535)
//   Some((options, payload)) in wire order
pub open spec fn parse_opts(b: Seq<u8>, idx: int, prev: int) -> Option<(Seq<(u16, Seq<u8>)>, Seq<u8>)>
    decreases b.len() - idx
{
    if idx >= b.len() { Some((Seq::empty(), Seq::empty())) }
    else if b[idx] == 0xFF { Some((Seq::empty(), b.subrange(idx + 1, b.len() as int))) }
    else {
        let dn = (b[idx] as int) / 16; let ln = (b[idx] as int) % 16;
        if dn == 15 || ln == 15 { None } else {
            let p1 = idx + 1;
            if p1 + ext_len(dn) > b.len() { None } else {
                let delta = ext_val(b, p1, dn); let p2 = p1 + ext_len(dn);
                if p2 + ext_len(ln) > b.len() { None } else {
                    let len = ext_val(b, p2, ln); let p3 = p2 + ext_len(ln);
                    if prev + delta > 65535 || p3 + len > b.len() { None } else {
                        match parse_opts(b, p3 + len, prev + delta) {
                            None => None,
                            Some((rest, pl)) => Some((seq![((prev + delta) as u16, b.subrange(p3, p3 + len))] + rest, pl)),
                        }
                    }
                }
            }
        }
    }
}
// the part of b from the payload marker on (or empty), as seen by parse_opts starting at idx
pub open spec fn tail_of(b: Seq<u8>, idx: int) -> Seq<u8>
    decreases b.len() - idx
{
    if idx >= b.len() { Seq::empty() } else if b[idx] == 0xFF { b.subrange(idx, b.len() as int) } else {
        let dn = (b[idx] as int) / 16; let ln = (b[idx] as int) % 16;
        let p2 = idx + 1 + ext_len(dn); let p3 = p2 + ext_len(ln);
        if dn == 15 || ln == 15 || p3 > b.len() || p3 + ext_val(b, p2, ln) > b.len() { Seq::empty() } else { tail_of(b, p3 + ext_val(b, p2, ln)) }
    }
}

pub struct MsgSpec { pub vtt: u8, pub code: u8, pub mid: u16, pub token: Seq<u8>, pub opts: Seq<(u16, Seq<u8>)>, pub payload: Seq<u8> }

pub open spec fn parse_msg(b: Seq<u8>) -> Option<MsgSpec> {
    if b.len() < 4 { None } else {
        let tkl = (b[0] as int) % 16;
        if tkl > 8 || 4 + tkl > b.len() { None } else {
            match parse_opts(b, 4 + tkl, 0) {
                None => None,
                Some((opts, pl)) => Some(MsgSpec { vtt: b[0], code: b[1], mid: ((b[2] as int) * 256 + b[3] as int) as u16, token: b.subrange(4, 4 + tkl), opts: opts, payload: pl }),
            }
        }
    }
}
// Datagrams on which RFC 7252 lets a parser be stricter than this one is today
// (C03: three-valued verdict): version != 1, a marker with nothing after it,
// anything after the 4-byte header of a 0.00 Empty message.
// a payload marker with nothing after it (the one lenient shape the encoder never produces)
pub open spec fn lone_marker(b: Seq<u8>) -> bool { b.len() >= 4 && tail_of(b, 4 + (b[0] as int) % 16).len() == 1 }
// the shape of every datagram the encoder produces: no payload marker at all, or a marker followed by at least one byte
// in a message whose code is not 0.00 (C01 needs exactly these decoded; C03 says which of the others may be refused)
pub open spec fn enc_shape(b: Seq<u8>) -> bool {
    b.len() >= 4 && ({ let t = tail_of(b, 4 + (b[0] as int) % 16); t.len() == 0 || (t.len() > 1 && b[1] != 0) })
}
pub open spec fn lenient(b: Seq<u8>) -> bool {
    b.len() >= 4 && (
        (b[0] as int) / 64 != 1
        || tail_of(b, 4 + (b[0] as int) % 16).len() == 1
        || (b[1] == 0 && b.len() > 4))
}
proof fn lemma_nibbles(b: u8)
    ensures (b >> 4) as int == (b as int) / 16, (b & 0xF) as int == (b as int) % 16, (0x0F & b) as int == (b as int) % 16,
{
    assert(b >> 4 == b / 16) by (bit_vector);
    assert(b & 0xF == b % 16) by (bit_vector);
    assert(0x0F & b == b % 16) by (bit_vector);
}
