// ---- exact behaviour of the two scanners (used by C16; C17 needs only the substring clauses)
pub open spec fn is_ws(c: char) -> bool { is_ascii_ws(c) }
// number of leading ASCII-whitespace characters
pub open spec fn skip_ws(s: Seq<char>) -> int
    decreases s.len()
{ if s.len() == 0 { 0 } else if is_ws(s[0]) { 1 + skip_ws(s.skip(1)) } else { 0 } }
// characters consumed by the quote-aware scan up to and including the first `stop` outside quotes (all, if there is none)
pub open spec fn scan_out(s: Seq<char>, stop: char) -> int
    decreases s.len(), 1int
{ if s.len() == 0 { 0 } else if s[0] == stop { 1 } else if s[0] == '"' { 1 + scan_in(s.skip(1), stop) } else { 1 + scan_out(s.skip(1), stop) } }
pub open spec fn scan_in(s: Seq<char>, stop: char) -> int
    decreases s.len(), 0int
{
    if s.len() == 0 { 0 } else if s[0] == '"' { 1 + scan_out(s.skip(1), stop) }
    else if s[0] == '\\' { if s.len() == 1 { 1 } else { 2 + scan_in(s.skip(2), stop) } }
    else { 1 + scan_in(s.skip(1), stop) }
}
proof fn lemma_scan_bounds(s: Seq<char>, stop: char)
    ensures 0 <= scan_out(s, stop) <= s.len(), 0 <= scan_in(s, stop) <= s.len()
    decreases s.len()
{
    if s.len() > 0 {
        lemma_scan_bounds(s.skip(1), stop);
        if s.len() > 1 { lemma_scan_bounds(s.skip(2), stop); }
    }
}
proof fn lemma_skip_ws_bounds(s: Seq<char>)
    ensures 0 <= skip_ws(s) <= s.len(), skip_ws(s) < s.len() ==> !is_ws(s[skip_ws(s)]), forall|j: int| 0 <= j < skip_ws(s) ==> is_ws(s[j])
    decreases s.len()
{
    if s.len() > 0 && is_ws(s[0]) {
        lemma_skip_ws_bounds(s.skip(1));
        let k = skip_ws(s.skip(1));
        if k < s.skip(1).len() { assert(s.skip(1)[k] == s[k + 1]); }
        assert forall|j: int| 0 <= j < 1 + k implies is_ws(s[j]) by { if j > 0 { assert(s.skip(1)[j - 1] == s[j]); } }
    }
}
// what LinkFormatParser::next does with a non-empty input that starts (after white space) with '<'
pub open spec fn lf_after_lt(s: Seq<char>) -> Seq<char> { s.skip(skip_ws(s) + 1) }
pub open spec fn lf_link_end(a: Seq<char>) -> int { let j = first_index(a, '>'); if j < a.len() { j + 1 } else { a.len() as int } }
pub open spec fn lf_link(s: Seq<char>) -> Seq<char> { let a = lf_after_lt(s); trim_end_of(a.take(lf_link_end(a)), '>') }
pub open spec fn lf_attr_text(s: Seq<char>) -> Seq<char> { let a = lf_after_lt(s); a.skip(lf_link_end(a)) }
pub open spec fn lf_attrs(s: Seq<char>) -> Seq<char> { let b = lf_attr_text(s); trim_start_of(trim_end_of(trim_end_of(b.take(scan_out(b, ',')), ','), ';'), ';') }
pub open spec fn lf_rest(s: Seq<char>) -> Seq<char> { let b = lf_attr_text(s); b.skip(scan_out(b, ',')) }
// what LinkAttributeParser::next does with a non-empty input
pub open spec fn la_seg(s: Seq<char>) -> Seq<char> { trim_end_of(s.take(scan_out(s, ';')), ';') }
pub open spec fn la_key(s: Seq<char>) -> Seq<char> { let g = la_seg(s); let f = first_index(g, '='); trim_start_ws(trim_end_ws(if f < g.len() { g.take(f) } else { g })) }
pub open spec fn la_value(s: Seq<char>) -> Seq<char> { let g = la_seg(s); let f = first_index(g, '='); trim_start_ws(trim_end_ws(if f < g.len() { g.skip(f + 1) } else { Seq::<char>::empty() })) }
pub open spec fn la_rest(s: Seq<char>) -> Seq<char> { s.skip(scan_out(s, ';')) }

