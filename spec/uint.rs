// ---- RFC 7252 section 3.2 "uint": shortest big-endian form ----
pub open spec fn uint_be_min(v: nat) -> Seq<u8>
    decreases v
{ if v == 0 { Seq::<u8>::empty() } else { uint_be_min(v / 256).push((v % 256) as u8) } }
pub open spec fn be_val(s: Seq<u8>) -> nat
    decreases s.len()
{ if s.len() == 0 { 0 } else { be_val(s.drop_last()) * 256 + s.last() as nat } }
pub open spec fn pow256(n: nat) -> nat decreases n { if n == 0 { 1 } else { 256 * pow256((n - 1) as nat) } }
proof fn lemma_be_val_bound(s: Seq<u8>)
    ensures be_val(s) < pow256(s.len())
    decreases s.len()
{
    if s.len() > 0 {
        lemma_be_val_bound(s.drop_last());
        assert(be_val(s) <= (pow256((s.len() - 1) as nat) - 1) * 256 + 255) by (nonlinear_arith)
            requires be_val(s) == be_val(s.drop_last()) * 256 + s.last() as nat, be_val(s.drop_last()) < pow256((s.len() - 1) as nat), s.last() <= 255;
    }
}
proof fn lemma_pow256_values()
    ensures pow256(0) == 1, pow256(1) == 256, pow256(2) == 65536, pow256(3) == 16777216, pow256(4) == 4294967296,
{
    reveal_with_fuel(pow256, 6);
}
// decoding the minimal form gives the value back
proof fn lemma_be_val_min(v: nat)
    ensures be_val(uint_be_min(v)) == v
    decreases v
{
    if v > 0 {
        lemma_be_val_min(v / 256);
        assert(uint_be_min(v).drop_last() =~= uint_be_min(v / 256));
    }
}
proof fn lemma_pow256_mono(a: nat, b: nat)
    requires a <= b
    ensures pow256(a) <= pow256(b)
    decreases b
{
    if a < b { lemma_pow256_mono(a, (b - 1) as nat); }
}
