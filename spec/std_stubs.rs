// ---- trusted std wrappers shared by the packet units (DESIGN.md 2.2/2.3) ----
pub assume_specification<T: Clone> [<[T]>::to_vec] (s: &[T]) -> (r: Vec<T>)
    ensures r@ == s@;

// R5: u16::from_be_bytes (const-generic signature cannot carry an assume_specification)
#[verifier::external_body]
fn u16_from_be_bytes(b: [u8; 2]) -> (r: u16)
    ensures r == (b[0] as u16) * 256 + (b[1] as u16)
{ u16::from_be_bytes(b) }

// R3: u16::from_be(u8_to_unsigned_be!(buf, idx, idx + 1, u16)); contract proved by Kani on the
// real macro expression for little-endian hosts (kani harness `be16_macro`)
#[verifier::external_body]
fn be16_at(buf: &[u8], idx: usize) -> (r: u16)
    requires idx + 1 < buf.len()
    ensures r == (buf[idx as int] as u16) * 256 + (buf[idx + 1] as u16)
{ unimplemented!() }
