// ---- round-trip lemmas over the RFC 7252 option section (validated in the design spikes, DESIGN.md A.5/A.6) ----
pub open spec fn wire_opts(s: Seq<(u16, Seq<u8>)>, prev: int) -> Seq<u8>
    decreases s.len()
{
    if s.len() == 0 { Seq::<u8>::empty() } else {
        opt_hdr(s[0].0 - prev, s[0].1.len() as int) + s[0].1 + wire_opts(s.drop_first(), s[0].0 as int)
    }
}
pub open spec fn sorted_from(s: Seq<(u16, Seq<u8>)>, prev: int) -> bool
    decreases s.len()
{
    s.len() == 0 || (prev <= s[0].0 && s[0].1.len() <= 65804 && sorted_from(s.drop_first(), s[0].0 as int))
}
pub open spec fn tail_ok(t: Seq<u8>) -> bool { t.len() == 0 || t[0] == 0xFF }
pub open spec fn payload_of(t: Seq<u8>) -> Seq<u8> { if t.len() == 0 { Seq::empty() } else { t.subrange(1, t.len() as int) } }
proof fn lemma_hdr_decode(delta: int, len: int, b: Seq<u8>, idx: int)
    requires
        0 <= delta <= 65535, 0 <= len <= 65804, 0 <= idx,
        idx + opt_hdr(delta, len).len() <= b.len(),
        b.subrange(idx, idx + opt_hdr(delta, len).len()) == opt_hdr(delta, len),
    ensures
        b[idx] != 0xFF,
        (b[idx] as int) / 16 == nib(delta), (b[idx] as int) % 16 == nib(len),
        ext_val(b, idx + 1, nib(delta)) == delta,
        ext_val(b, idx + 1 + ext_len(nib(delta)), nib(len)) == len,
        opt_hdr(delta, len).len() == 1 + ext_len(nib(delta)) + ext_len(nib(len)),
{
    let h = opt_hdr(delta, len);
    let sub = b.subrange(idx, idx + h.len());
    assert(h.len() == 1 + ext_bytes(delta).len() + ext_bytes(len).len());
    assert(forall|k: int| 0 <= k < h.len() ==> b[idx + k] == sub[k]);
    assert(h[0] == (nib(delta) * 16 + nib(len)) as u8);
    assert(b[idx] == h[0]);
    let ed = ext_bytes(delta); let el = ext_bytes(len);
    assert(forall|k: int| 0 <= k < ed.len() ==> h[1 + k] == ed[k]);
    assert(forall|k: int| 0 <= k < el.len() ==> h[1 + ed.len() + k] == el[k]);
    if delta >= 269 {
        assert(b[idx + 1] == ed[0]); assert(b[idx + 2] == ed[1]);
        assert((delta - 269) / 256 < 256);
    } else if delta >= 13 { assert(b[idx + 1] == ed[0]); }
    if len >= 269 {
        assert(b[idx + 1 + ed.len()] == el[0]); assert(b[idx + 1 + ed.len() + 1] == el[1]);
        assert((len - 269) / 256 < 256);
    } else if len >= 13 { assert(b[idx + 1 + ed.len()] == el[0]); }
}
proof fn lemma_parse_wire(s: Seq<(u16, Seq<u8>)>, prev: int, pre: Seq<u8>, tail: Seq<u8>)
    requires sorted_from(s, prev), tail_ok(tail), 0 <= prev <= 65535,
    ensures parse_opts(pre + wire_opts(s, prev) + tail, pre.len() as int, prev) == Some((s, payload_of(tail))),
    decreases s.len()
{
    let b = pre + wire_opts(s, prev) + tail;
    let idx = pre.len() as int;
    if s.len() == 0 {
        assert(wire_opts(s, prev) =~= Seq::<u8>::empty());
        assert(b =~= pre + tail);
        if tail.len() == 0 {
            assert(s =~= Seq::empty());
        } else {
            assert(b[idx] == tail[0]);
            assert(b.subrange(idx + 1, b.len() as int) =~= tail.subrange(1, tail.len() as int));
            assert(s =~= Seq::empty());
        }
    } else {
        let delta = s[0].0 - prev; let len = s[0].1.len() as int;
        let h = opt_hdr(delta, len);
        let rest_w = wire_opts(s.drop_first(), s[0].0 as int);
        assert(wire_opts(s, prev) == h + s[0].1 + rest_w);
        assert(b.subrange(idx, idx + h.len()) =~= h);
        lemma_hdr_decode(delta, len, b, idx);
        let p3 = idx + h.len();
        assert(b.subrange(p3, p3 + len) =~= s[0].1);
        let pre2 = pre + h + s[0].1;
        assert(b =~= pre2 + rest_w + tail);
        lemma_parse_wire(s.drop_first(), s[0].0 as int, pre2, tail);
        assert(pre2.len() == p3 + len);
        // the grammar's own steps at idx, spelled out (keeps the query small and independent of the solver's seed)
        let dn = nib(delta); let ln = nib(len);
        assert((b[idx] as int) / 16 == dn && (b[idx] as int) % 16 == ln && dn != 15 && ln != 15 && b[idx] != 0xFF);
        let p2 = idx + 1 + ext_len(dn);
        assert(p3 == p2 + ext_len(ln));
        assert(ext_val(b, idx + 1, dn) == delta && ext_val(b, p2, ln) == len);
        assert(p3 + len <= b.len() && prev + delta == s[0].0 as int);
        assert(parse_opts(b, p3 + len, prev + delta) == Some((s.drop_first(), payload_of(tail))));
        assert(seq![((prev + delta) as u16, b.subrange(p3, p3 + len))] + s.drop_first() =~= s);
    }
}
proof fn lemma_hdr_encode(b: Seq<u8>, idx: int)
    requires
        0 <= idx < b.len(), b[idx] != 0xFF,
        (b[idx] as int) / 16 != 15, (b[idx] as int) % 16 != 15,
        idx + 1 + ext_len((b[idx] as int) / 16) + ext_len((b[idx] as int) % 16) <= b.len(),
    ensures ({
        let dn = (b[idx] as int) / 16; let ln = (b[idx] as int) % 16;
        let delta = ext_val(b, idx + 1, dn); let len = ext_val(b, idx + 1 + ext_len(dn), ln);
        &&& nib(delta) == dn &&& nib(len) == ln
        &&& b.subrange(idx, idx + 1 + ext_len(dn) + ext_len(ln)) == opt_hdr(delta, len)
    })
{
    let dn = (b[idx] as int) / 16; let ln = (b[idx] as int) % 16;
    let p1 = idx + 1; let p2 = p1 + ext_len(dn);
    let delta = ext_val(b, p1, dn); let len = ext_val(b, p2, ln);
    let h = opt_hdr(delta, len);
    let sub = b.subrange(idx, p2 + ext_len(ln));
    assert(ext_bytes(delta).len() == ext_len(dn));
    assert(ext_bytes(len).len() == ext_len(ln));
    assert(h.len() == sub.len());
    assert((dn * 16 + ln) as u8 == b[idx]);
    if dn == 14 { assert(((b[p1] as int) * 256 + b[p1 + 1] as int) / 256 == b[p1] as int); assert(((b[p1] as int) * 256 + b[p1 + 1] as int) % 256 == b[p1 + 1] as int); }
    if ln == 14 { assert(((b[p2] as int) * 256 + b[p2 + 1] as int) / 256 == b[p2] as int); assert(((b[p2] as int) * 256 + b[p2 + 1] as int) % 256 == b[p2 + 1] as int); }
    assert forall|k: int| 0 <= k < h.len() implies h[k] == sub[k] by {
        let ed = ext_bytes(delta); let el = ext_bytes(len);
        if k == 0 { } else if k < 1 + ed.len() { assert(h[k] == ed[k - 1]); } else { assert(h[k] == el[k - 1 - ed.len()]); }
    }
    assert(h =~= sub);
}
proof fn lemma_wire_parse(b: Seq<u8>, idx: int, prev: int)
    requires 0 <= idx <= b.len(), 0 <= prev <= 65535, parse_opts(b, idx, prev) is Some,
    ensures
        b.subrange(idx, b.len() as int) == wire_opts(parse_opts(b, idx, prev).unwrap().0, prev) + tail_of(b, idx),
        tail_ok(tail_of(b, idx)),
        payload_of(tail_of(b, idx)) == parse_opts(b, idx, prev).unwrap().1,
    decreases b.len() - idx
{
    if idx >= b.len() {
        assert(b.subrange(idx, b.len() as int) =~= Seq::<u8>::empty());
        assert(wire_opts(Seq::empty(), prev) =~= Seq::<u8>::empty());
    } else if b[idx] == 0xFF {
        assert(wire_opts(Seq::empty(), prev) =~= Seq::<u8>::empty());
        assert(b.subrange(idx, b.len() as int).subrange(1, b.len() - idx) =~= b.subrange(idx + 1, b.len() as int));
    } else {
        let dn = (b[idx] as int) / 16; let ln = (b[idx] as int) % 16;
        let p1 = idx + 1; let p2 = p1 + ext_len(dn); let p3 = p2 + ext_len(ln);
        let delta = ext_val(b, p1, dn); let len = ext_val(b, p2, ln);
        lemma_hdr_encode(b, idx);
        lemma_wire_parse(b, p3 + len, prev + delta);
        let r = parse_opts(b, p3 + len, prev + delta).unwrap();
        let s = parse_opts(b, idx, prev).unwrap().0;
        let item = ((prev + delta) as u16, b.subrange(p3, p3 + len));
        assert(s == seq![item] + r.0);
        assert(s[0] == item);
        assert(s.drop_first() =~= r.0);
        assert(wire_opts(s, prev) == opt_hdr(delta, len) + item.1 + wire_opts(r.0, prev + delta));
        assert(b.subrange(idx, b.len() as int) =~= b.subrange(idx, p3) + b.subrange(p3, p3 + len) + b.subrange(p3 + len, b.len() as int));
    }
}
pub open spec fn nondecreasing(s: Seq<Opt>) -> bool { forall|i: int, j: int| 0 <= i <= j < s.len() ==> s[i].0 <= s[j].0 }
proof fn lemma_group_keys(s: Seq<Opt>, k: u16)
    requires group(s).contains_key(k)
    ensures exists|i: int| 0 <= i < s.len() && s[i].0 == k
    decreases s.len()
{
    reveal(group);
    if s.len() > 0 {
        if s.last().0 == k { assert(s[s.len() - 1].0 == k); }
        else { lemma_group_keys(s.drop_last(), k); let i = choose|i: int| 0 <= i < s.drop_last().len() && s.drop_last()[i].0 == k; assert(s[i].0 == k); }
    }
}
proof fn lemma_flat_map_frame(g: Map<u16, Seq<Seq<u8>>>, g2: Map<u16, Seq<Seq<u8>>>, n: int)
    requires 0 <= n <= 65536, forall|k: u16| k < n ==> ((#[trigger] g.contains_key(k)) == g2.contains_key(k) && (g.contains_key(k) ==> g[k] == g2[k])),
    ensures flat_map(g, n) == flat_map(g2, n)
    decreases n
{ if n > 0 { lemma_flat_map_frame(g, g2, n - 1); } }
proof fn lemma_flat_group(s: Seq<Opt>)
    requires nondecreasing(s)
    ensures flat_map(group(s), 65536) == s
    decreases s.len()
{
    reveal(group);
    if s.len() == 0 {
        lemma_gap(group(s), 0, 65536);
    } else {
        let s1 = s.drop_last(); let x = s.last(); let n = x.0; let g = group(s1); let g2 = group(s);
        assert(nondecreasing(s1)) by { assert forall|i: int, j: int| 0 <= i <= j < s1.len() implies s1[i].0 <= s1[j].0 by { assert(s[i].0 <= s[j].0); } }
        lemma_flat_group(s1);
        // no key of g above n
        assert forall|k: u16| n < k implies !g.contains_key(k) by {
            if g.contains_key(k) { lemma_group_keys(s1, k); let i = choose|i: int| 0 <= i < s1.len() && s1[i].0 == k; assert(s[i].0 <= s[s.len() - 1].0); }
        }
        lemma_gap(g, n + 1, 65536);
        assert forall|k: u16| n < k implies !g2.contains_key(k) by { }
        lemma_gap(g2, n + 1, 65536);
        lemma_flat_map_frame(g, g2, n as int);
        let old_vals = if g.contains_key(n) { g[n] } else { Seq::<Seq<u8>>::empty() };
        assert(g2[n] == old_vals.push(x.1));
        assert(tagged(n, old_vals.push(x.1)) =~= tagged(n, old_vals).push((n, x.1)));
        assert(flat_map(g2, n + 1) == flat_map(g2, n as int) + tagged(n, g2[n]));
        if g.contains_key(n) { assert(flat_map(g, n + 1) == flat_map(g, n as int) + tagged(n, g[n])); }
        else { assert(flat_map(g, n + 1) =~= flat_map(g, n as int)); assert(tagged(n, old_vals) =~= Seq::<Opt>::empty()); }
        assert(flat_map(g2, n + 1) =~= flat_map(g, n + 1).push((n, x.1)));
        assert(s1.push(x) =~= s);
    }
}
