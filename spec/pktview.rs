// ---- what a Packet denotes, and the contracts of the codec, shared by the units dec, enc and rt
//      (so that the round-trip lemmas are about exactly the contracts the code is verified against) ----
pub open spec fn pkt_matches(p: Packet, m: MsgSpec) -> bool {
    p.header.ver_type_tkl == m.vtt && p.header.code == class_of_u8(m.code) && p.header.message_id == m.mid
    && p.token@ == m.token && opts_view(p.options) == group(m.opts) && p.payload@ == m.payload
}
// contract of Packet::from_bytes (C03 three-valued form + C01 strict acceptance)
pub open spec fn dec_post(b: Seq<u8>, r: Result<Packet, MessageError>) -> bool {
    &&& (parse_msg(b) is None ==> r is Err)
    &&& (parse_msg(b) is Some && enc_shape(b) ==> r is Ok)
    &&& (r is Ok ==> parse_msg(b) is Some && pkt_matches(r->Ok_0, parse_msg(b)->0))
}
pub open spec fn pkt_opts(p: Packet) -> Seq<Opt> { flat_map(opts_view(p.options), 65536) }
pub open spec fn pkt_wire(p: Packet) -> Seq<u8> {
    wire_msg(p.header.ver_type_tkl, u8_of_class(p.header.code), p.header.message_id, p.token@, pkt_opts(p), p.payload@)
}
// codes for which "not the Empty class" and "code byte != 0" coincide (everything the decoder
// produces and every named code; excludes hand-built Reserved(n) for an assigned n and UnKnown)
pub open spec fn code_canonical(c: MessageClass) -> bool { class_of_u8(u8_of_class(c)) == c }
pub open spec fn enc_pre(p: Packet) -> bool {
    p.token@.len() <= 0x1000_0000 && p.payload@.len() <= 0x1000_0000 && code_canonical(p.header.code)
}
// contract of to_bytes / to_bytes_with_limit / to_bytes_unlimited / to_bytes_internal
// (C04: exact limit; C01: exact wire image)
pub open spec fn enc_post(p: Packet, limit: Option<usize>, r: Result<Vec<u8>, MessageError>) -> bool {
    &&& map_encodable(opts_view(p.options)) ==> (r is Ok <==> (limit is None || pkt_wire(p).len() <= limit->0))
    &&& map_encodable(opts_view(p.options)) && r is Err ==> r->Err_0 == MessageError::InvalidPacketLength
    &&& !map_encodable(opts_view(p.options)) ==> r is Err
    &&& r is Ok ==> r->Ok_0@ == pkt_wire(p)
}
