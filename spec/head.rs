#![feature(allocator_api)]
#![allow(unused_imports, dead_code, unused_variables, unused_mut, unused_assignments, non_snake_case)]
use vstd::prelude::*;
use std::collections::{BTreeMap, VecDeque};
use core::convert::TryFrom;
use vstd::std_specs::convert::*;
use vstd::std_specs::btree::*;
use vstd::std_specs::cmp::OrdSpec;
verus! {
