
// ---- byte offsets of character positions in a str (UTF-8): boff(s, k) = bytes before char k.
// Axioms (assumed; facts of UTF-8): 0 at 0, strictly increasing, an ASCII first character occupies
// one byte, offsets inside a suffix are the offsets of the whole text shifted.
pub uninterp spec fn boff(s: Seq<char>, k: int) -> int;
pub broadcast axiom fn axiom_boff_zero(s: Seq<char>)
    ensures #[trigger] boff(s, 0) == 0;
pub broadcast axiom fn axiom_boff_mono(s: Seq<char>, i: int, j: int)
    requires 0 <= i < j <= s.len()
    ensures #[trigger] boff(s, i) < #[trigger] boff(s, j);
pub broadcast axiom fn axiom_boff_ascii(s: Seq<char>)
    requires s.len() > 0, (s[0] as u32) < 128
    ensures #[trigger] boff(s, 1) == 1;
pub broadcast axiom fn axiom_boff_suffix(s: Seq<char>, k: int, j: int)
    requires 0 <= k, 0 <= j, k + j <= s.len()
    ensures #[trigger] boff(s.skip(k), j) == boff(s, k + j) - boff(s, k);
pub open spec fn is_boundary(s: Seq<char>, a: int) -> bool { exists|k: int| 0 <= k <= s.len() && #[trigger] boff(s, k) == a }
pub open spec fn char_at_off(s: Seq<char>, a: int) -> int { choose|k: int| 0 <= k <= s.len() && #[trigger] boff(s, k) == a }
proof fn lemma_off_unique(s: Seq<char>, k: int)
    requires 0 <= k <= s.len()
    ensures is_boundary(s, boff(s, k)), char_at_off(s, boff(s, k)) == k
{
    let a = boff(s, k);
    assert(is_boundary(s, a));
    let c = char_at_off(s, a);
    if c < k { axiom_boff_mono(s, c, k); } else if c > k { axiom_boff_mono(s, k, c); }
}
pub open spec fn first_index(s: Seq<char>, c: char) -> int
    decreases s.len()
{ if s.len() == 0 { 0 } else if s[0] == c { 0 } else { 1 + first_index(s.skip(1), c) } }
proof fn lemma_first_index(s: Seq<char>, c: char)
    ensures 0 <= first_index(s, c) <= s.len(),
        forall|j: int| 0 <= j < first_index(s, c) ==> s[j] != c,
        first_index(s, c) < s.len() ==> s[first_index(s, c)] == c,
        s.contains(c) <==> first_index(s, c) < s.len(),
    decreases s.len()
{
    if s.len() > 0 && s[0] != c {
        lemma_first_index(s.skip(1), c);
        let f = first_index(s.skip(1), c);
        assert forall|j: int| 0 <= j < 1 + f implies s[j] != c by { if j > 0 { assert(s.skip(1)[j - 1] == s[j]); } }
        if f < s.skip(1).len() { assert(s.skip(1)[f] == s[f + 1]); }
        if s.contains(c) {
            let j = choose|j: int| 0 <= j < s.len() && s[j] == c;
            assert(s.skip(1)[j - 1] == c);
        }
        if s.skip(1).contains(c) {
            let j = choose|j: int| 0 <= j < s.skip(1).len() && s.skip(1)[j] == c;
            assert(s[j + 1] == c);
        }
    } else if s.len() > 0 {
        assert(s[0] == c);
    }
}
pub open spec fn last_index(s: Seq<char>, c: char) -> int
    decreases s.len()
{ if s.len() == 0 { -1 } else if s.last() == c { s.len() - 1 } else { last_index(s.drop_last(), c) } }
proof fn lemma_last_index(s: Seq<char>, c: char)
    ensures -1 <= last_index(s, c) < s.len(), last_index(s, c) >= 0 ==> s[last_index(s, c)] == c, s.contains(c) <==> last_index(s, c) >= 0,
        forall|j: int| last_index(s, c) < j < s.len() ==> s[j] != c
    decreases s.len()
{
    if s.len() > 0 && s.last() != c {
        lemma_last_index(s.drop_last(), c);
        if s.contains(c) { let j = choose|j: int| 0 <= j < s.len() && s[j] == c; assert(s.drop_last()[j] == c); }
        if s.drop_last().contains(c) { let j = choose|j: int| 0 <= j < s.drop_last().len() && s.drop_last()[j] == c; assert(s[j] == c); }
        assert forall|j: int| last_index(s, c) < j < s.len() implies s[j] != c by { if j < s.len() - 1 { assert(s.drop_last()[j] == s[j]); } }
    } else if s.len() > 0 { assert(s[s.len() - 1] == c); }
}

// ---- R34 wrappers for std str functions (assumed contracts)
pub assume_specification<'a> [core::str::Chars::<'a>::as_str] (c: &core::str::Chars<'a>) -> (r: &'a str)
    ensures r@ == c.remaining();
#[verifier::external_body]
pub fn str_find_char(s: &str, c: char) -> (r: Option<usize>)
    ensures r is None <==> !s@.contains(c), r is Some ==> r->0 as int == boff(s@, first_index(s@, c))
{ unimplemented!() }
#[verifier::external_body]
pub fn str_rfind_char(s: &str, c: char) -> (r: Option<usize>)
    ensures r is None <==> !s@.contains(c), r is Some ==> r->0 as int == boff(s@, last_index(s@, c))
{ unimplemented!() }
#[verifier::external_body]
pub fn str_starts_with_char(s: &str, c: char) -> (r: bool) ensures r == (s@.len() > 0 && s@[0] == c) { unimplemented!() }
#[verifier::external_body]
pub fn str_len(s: &str) -> (r: usize) ensures r as int == boff(s@, s@.len() as int) { unimplemented!() }
#[verifier::external_body]
pub fn str_is_empty(s: &str) -> (r: bool) ensures r == (s@.len() == 0) { unimplemented!() }
// &s[a..] / &s[..b] / split_at: panic unless the offset is a character boundary (hence the precondition)
#[verifier::external_body]
pub fn str_from<'a>(s: &'a str, a: usize) -> (r: &'a str)
    requires is_boundary(s@, a as int)
    ensures r@ == s@.skip(char_at_off(s@, a as int))
{ unimplemented!() }
#[verifier::external_body]
pub fn str_to<'a>(s: &'a str, b: usize) -> (r: &'a str)
    requires is_boundary(s@, b as int)
    ensures r@ == s@.take(char_at_off(s@, b as int))
{ unimplemented!() }
#[verifier::external_body]
pub fn str_split_at<'a>(s: &'a str, i: usize) -> (r: (&'a str, &'a str))
    requires is_boundary(s@, i as int)
    ensures r.0@ == s@.take(char_at_off(s@, i as int)), r.1@ == s@.skip(char_at_off(s@, i as int))
{ unimplemented!() }

#[verifier::external_body]
pub fn str_ends_with_char(s: &str, c: char) -> (r: bool) ensures r == (s@.len() > 0 && s@.last() == c) { unimplemented!() }
#[verifier::external_body]
pub fn str_strip_suffix_char<'a>(s: &'a str, c: char) -> (r: Option<&'a str>)
    ensures r is Some <==> (s@.len() > 0 && s@.last() == c), r is Some ==> r->0@ == s@.drop_last()
{ unimplemented!() }
#[verifier::external_body]
pub fn str_strip_prefix_char<'a>(s: &'a str, c: char) -> (r: Option<&'a str>)
    ensures r is Some <==> (s@.len() > 0 && s@[0] == c), r is Some ==> r->0@ == s@.skip(1)
{ unimplemented!() }
// trim family (exact): trim_*_matches(c) strip every leading / trailing c; trim() strips Unicode White_Space (is_uws, not
// spelled out: only "this character is not white space" facts are ever needed)
pub open spec fn trim_end_of(s: Seq<char>, c: char) -> Seq<char>
    decreases s.len()
{ if s.len() > 0 && s.last() == c { trim_end_of(s.drop_last(), c) } else { s } }
pub open spec fn trim_start_of(s: Seq<char>, c: char) -> Seq<char>
    decreases s.len()
{ if s.len() > 0 && s[0] == c { trim_start_of(s.skip(1), c) } else { s } }
pub open spec fn trim_end_ws(s: Seq<char>) -> Seq<char>
    decreases s.len()
{ if s.len() > 0 && is_uws(s.last()) { trim_end_ws(s.drop_last()) } else { s } }
pub open spec fn trim_start_ws(s: Seq<char>) -> Seq<char>
    decreases s.len()
{ if s.len() > 0 && is_uws(s[0]) { trim_start_ws(s.skip(1)) } else { s } }
proof fn lemma_trim_end_take(s: Seq<char>, c: char)
    ensures exists|n: int| 0 <= n <= s.len() && trim_end_of(s, c) == #[trigger] s.take(n)
    decreases s.len()
{
    if s.len() > 0 && s.last() == c {
        lemma_trim_end_take(s.drop_last(), c);
        let n = choose|n: int| 0 <= n <= s.drop_last().len() && trim_end_of(s.drop_last(), c) == #[trigger] s.drop_last().take(n);
        assert(s.drop_last().take(n) =~= s.take(n));
    } else { assert(s.take(s.len() as int) =~= s); }
}
proof fn lemma_trim_start_skip(s: Seq<char>, c: char)
    ensures exists|n: int| 0 <= n <= s.len() && trim_start_of(s, c) == #[trigger] s.skip(n)
    decreases s.len()
{
    if s.len() > 0 && s[0] == c {
        lemma_trim_start_skip(s.skip(1), c);
        let n = choose|n: int| 0 <= n <= s.skip(1).len() && trim_start_of(s.skip(1), c) == #[trigger] s.skip(1).skip(n);
        assert(s.skip(1).skip(n) =~= s.skip(n + 1));
    } else { assert(s.skip(0) =~= s); }
}
#[verifier::external_body]
pub fn str_trim_end_matches<'a>(s: &'a str, c: char) -> (r: &'a str)
    ensures r@ == trim_end_of(s@, c), exists|n: int| 0 <= n <= s@.len() && r@ == s@.take(n)
{ unimplemented!() }
#[verifier::external_body]
pub fn str_trim_start_matches<'a>(s: &'a str, c: char) -> (r: &'a str)
    ensures r@ == trim_start_of(s@, c), exists|n: int| 0 <= n <= s@.len() && r@ == s@.skip(n)
{ unimplemented!() }
#[verifier::external_body]
pub fn str_trim_matches<'a>(s: &'a str, c: char) -> (r: &'a str)
    ensures r@ == trim_start_of(trim_end_of(s@, c), c), exists|a: int, b: int| 0 <= a <= b <= s@.len() && r@ == s@.subrange(a, b)
{ unimplemented!() }
#[verifier::external_body]
pub fn str_trim<'a>(s: &'a str) -> (r: &'a str)
    ensures r@ == trim_start_ws(trim_end_ws(s@)), exists|a: int, b: int| 0 <= a <= b <= s@.len() && r@ == s@.subrange(a, b)
{ unimplemented!() }
