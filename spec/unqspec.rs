// ---- the unquoted text (C17): what the character-by-character path yields
pub open spec fn unq_quoted(s: Seq<char>) -> Seq<char>
    decreases s.len()
{
    if s.len() == 0 { Seq::empty() }
    else if s[0] == '"' { Seq::empty() }
    else if s[0] == '\\' { if s.len() == 1 { Seq::empty() } else { seq![s[1]] + unq_quoted(s.skip(2)) } }
    else { seq![s[0]] + unq_quoted(s.skip(1)) }
}
