// ---- RFC 7252 section 3 / 3.1 encoding direction, written from the RFC ----
pub open spec fn nib(x: int) -> int { if x < 13 { x } else if x < 269 { 13 } else { 14 } }
pub open spec fn ext_bytes(x: int) -> Seq<u8> {
    if x < 13 { Seq::<u8>::empty() } else if x < 269 { seq![(x - 13) as u8] } else { seq![((x - 269) / 256) as u8, ((x - 269) % 256) as u8] }
}
pub open spec fn opt_hdr(delta: int, len: int) -> Seq<u8> {
    seq![(nib(delta) * 16 + nib(len)) as u8] + ext_bytes(delta) + ext_bytes(len)
}
pub open spec fn prev_num(s: Seq<Opt>) -> int { if s.len() == 0 { 0 } else { s.last().0 as int } }
// options in wire order; left-recursive so that appending one option is one unfolding
pub open spec fn wire_opts_r(s: Seq<Opt>) -> Seq<u8>
    decreases s.len()
{
    if s.len() == 0 { Seq::<u8>::empty() } else {
        wire_opts_r(s.drop_last()) + opt_hdr(s.last().0 - prev_num(s.drop_last()), s.last().1.len() as int) + s.last().1
    }
}
pub open spec fn tagged(n: u16, vals: Seq<Seq<u8>>) -> Seq<Opt> { vals.map_values(|v: Seq<u8>| (n, v)) }
// the multimap flattened in ascending option number, values of one number in list order
pub open spec fn flat_map(m: Map<u16, Seq<Seq<u8>>>, n: int) -> Seq<Opt>
    decreases n
{ if n <= 0 { Seq::empty() } else { flat_map(m, n - 1) + (if m.contains_key((n - 1) as u16) { tagged((n - 1) as u16, m[(n - 1) as u16]) } else { Seq::empty() }) } }

pub open spec fn encodable(s: Seq<Opt>) -> bool { forall|i: int| 0 <= i < s.len() ==> (#[trigger] s[i]).1.len() <= 65804 }
pub open spec fn map_encodable(m: Map<u16, Seq<Seq<u8>>>) -> bool {
    forall|k: u16, i: int| m.contains_key(k) && 0 <= i < m[k].len() ==> (#[trigger] m[k][i]).len() <= 65804
}

// the whole message (RFC 7252 figure 7): header, token, options, and marker + payload only
// when a payload is sent (never for code 0.00, never for an empty payload)
pub open spec fn wire_msg(vtt: u8, code: u8, mid: u16, token: Seq<u8>, opts: Seq<Opt>, payload: Seq<u8>) -> Seq<u8> {
    seq![vtt, code, (mid / 256) as u8, (mid % 256) as u8] + token + wire_opts_r(opts)
        + (if code != 0 && payload.len() > 0 { seq![0xFFu8] + payload } else { Seq::<u8>::empty() })
}

proof fn lemma_gap(m: Map<u16, Seq<Seq<u8>>>, a: int, b: int)
    requires 0 <= a <= b <= 65536, forall|k: u16| a <= k < b ==> !m.contains_key(k),
    ensures flat_map(m, b) == flat_map(m, a),
    decreases b - a
{
    if a < b {
        lemma_gap(m, a, b - 1);
        assert(!m.contains_key((b - 1) as u16));
        assert(flat_map(m, b) =~= flat_map(m, b - 1));
    }
}
proof fn lemma_flat_prev(m: Map<u16, Seq<Seq<u8>>>, n: int)
    requires 0 <= n <= 65536
    ensures prev_num(flat_map(m, n)) < n || (n == 0 && prev_num(flat_map(m, n)) == 0), flat_map(m, 0) == Seq::<Opt>::empty()
    decreases n
{
    if n > 0 {
        lemma_flat_prev(m, n - 1);
        let k = (n - 1) as u16;
        if m.contains_key(k) && m[k].len() > 0 {
            let t = tagged(k, m[k]);
            assert((flat_map(m, n - 1) + t).last() == t.last());
        } else {
            if m.contains_key(k) { assert(tagged(k, m[k]) =~= Seq::<Opt>::empty()); }
            assert(flat_map(m, n) =~= flat_map(m, n - 1));
        }
    }
}
proof fn lemma_wire_push(s: Seq<Opt>, x: Opt)
    ensures wire_opts_r(s.push(x)) == wire_opts_r(s) + opt_hdr(x.0 - prev_num(s), x.1.len() as int) + x.1,
            prev_num(s.push(x)) == x.0,
{
    assert(s.push(x).drop_last() == s);
}
proof fn lemma_split16(fix: u16)
    ensures ((fix >> 8) as u8) as int == (fix as int) / 256, ((fix & 0xFF) as u8) as int == (fix as int) % 256
{
    assert((fix >> 8) as u8 == (fix / 256) as u8) by (bit_vector);
    assert((fix & 0xFF) as u8 == (fix % 256) as u8) by (bit_vector);
    assert(fix / 256 < 256) by (bit_vector);
}
proof fn lemma_flat_contains(m: Map<u16, Seq<Seq<u8>>>, n: int, k: u16, i: int)
    requires 0 <= n <= 65536, m.contains_key(k), k < n, 0 <= i < m[k].len()
    ensures exists|j: int| 0 <= j < flat_map(m, n).len() && #[trigger] flat_map(m, n)[j] == (k, m[k][i])
    decreases n
{
    if n - 1 == k {
        let pre = flat_map(m, n - 1); let t = tagged(k, m[k]);
        assert(flat_map(m, n) == pre + t);
        assert(flat_map(m, n)[pre.len() + i] == t[i]);
    } else {
        lemma_flat_contains(m, n - 1, k, i);
        let j = choose|j: int| 0 <= j < flat_map(m, n - 1).len() && #[trigger] flat_map(m, n - 1)[j] == (k, m[k][i]);
        assert(flat_map(m, n)[j] == flat_map(m, n - 1)[j]);
    }
}
