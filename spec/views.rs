// ---- abstract view of the option multimap ----
pub type Opt = (u16, Seq<u8>);
pub open spec fn vals_view(l: VecDeque<Vec<u8>>) -> Seq<Seq<u8>> {
    l@.map_values(|v: Vec<u8>| v@)
}
#[verifier::opaque]
pub open spec fn opts_view(m: BTreeMap<u16, VecDeque<Vec<u8>>>) -> Map<u16, Seq<Seq<u8>>> {
    Map::new(m@.dom(), |k: u16| vals_view(m@[k]))
}
pub open spec fn push_opt(g: Map<u16, Seq<Seq<u8>>>, n: u16, v: Seq<u8>) -> Map<u16, Seq<Seq<u8>>> {
    g.insert(n, (if g.contains_key(n) { g[n] } else { Seq::<Seq<u8>>::empty() }).push(v))
}
#[verifier::opaque]
pub open spec fn group(s: Seq<Opt>) -> Map<u16, Seq<Seq<u8>>>
    decreases s.len()
{
    if s.len() == 0 { Map::empty() } else { push_opt(group(s.drop_last()), s.last().0, s.last().1) }
}
proof fn lemma_group_push(acc: Seq<Opt>, n: u16, v: Seq<u8>)
    ensures group(acc.push((n, v))) == push_opt(group(acc), n, v)
{
    reveal(group);
    assert(acc.push((n, v)).drop_last() == acc);
}
proof fn lemma_group_empty()
    ensures group(Seq::<Opt>::empty()) == Map::<u16, Seq<Seq<u8>>>::empty()
{ reveal(group); }
