//! Native replays for C09 findings: upload histories through the public BlockHandler API.
use coap_lite::block_handler::BlockValue;
use coap_lite::{BlockHandler, BlockHandlerConfig, CoapOption, CoapRequest, MessageClass, MessageType, Packet, RequestType};

fn put_block(num: u16, more: bool, szx: u8, payload: &[u8], mid: u16) -> CoapRequest<&'static str> {
    let mut p = Packet::new();
    p.header.set_type(MessageType::Confirmable);
    p.header.code = MessageClass::Request(RequestType::Put);
    p.header.message_id = mid;
    p.set_token(vec![mid as u8]);
    p.add_option(CoapOption::UriPath, b"up".to_vec());
    p.add_option_as(CoapOption::Block1, BlockValue { num, more, size_exponent: szx });
    p.payload = payload.to_vec();
    CoapRequest::from_packet(p, "client")
}

/// drives one upload; returns the bodies handed to the application (one per Ok(false))
fn upload(h: &mut BlockHandler<&'static str>, blocks: &[(u16, bool, Vec<u8>)], delivered: &mut Vec<Vec<u8>>) {
    for (i, (num, more, data)) in blocks.iter().enumerate() {
        let mut req = put_block(*num, *more, 0, data, 100 + i as u16);
        match h.intercept_request(&mut req) {
            Ok(true) => {}
            Ok(false) => delivered.push(req.message.payload.clone()),
            Err(e) => panic!("handler error {:?}", e),
        }
    }
}

/// D10: an upload abandoned after k blocks, followed by a SHORTER body to the same resource:
/// the final short block must deliver exactly the new body (C09 "regardless of an earlier upload
/// to the same resource that was abandoned midway").
#[test]
fn abandoned_longer_upload_then_shorter_body() {
    let mut h = BlockHandler::new(BlockHandlerConfig::default());
    let mut delivered = Vec::new();
    // abandoned: 4 blocks of 16 bytes of 0xAA, never finished
    let old: Vec<(u16, bool, Vec<u8>)> = (0..4).map(|i| (i as u16, true, vec![0xAA; 16])).collect();
    upload(&mut h, &old, &mut delivered);
    assert!(delivered.is_empty());
    // new body: 20 bytes = one full block + final short block
    let body: Vec<u8> = (0..20u8).collect();
    let new = vec![(0u16, true, body[..16].to_vec()), (1u16, false, body[16..].to_vec())];
    upload(&mut h, &new, &mut delivered);
    assert_eq!(delivered.len(), 1);
    assert_eq!(delivered[0], body, "delivered body differs from the body sent");
}

/// D8: the FINAL block delivered twice in a row must not reach the application a second time.
#[test]
fn duplicate_final_block() {
    let mut h = BlockHandler::new(BlockHandlerConfig::default());
    let mut delivered = Vec::new();
    let body: Vec<u8> = (0..20u8).collect();
    let blocks = vec![(0u16, true, body[..16].to_vec()), (1u16, false, body[16..].to_vec()), (1u16, false, body[16..].to_vec())];
    upload(&mut h, &blocks, &mut delivered);
    assert_eq!(delivered.len(), 1, "the application was reached {} times: {:?}", delivered.len(), delivered);
    assert_eq!(delivered[0], body);
}
