//! Native replay for a C08 corner: a GET with early Block2 negotiation (Block2 option 0/szx in the FIRST request)
//! answered by the application with an EMPTY body.
use coap_lite::block_handler::BlockValue;
use coap_lite::{BlockHandler, BlockHandlerConfig, CoapOption, CoapRequest, MessageClass, MessageType, Packet, RequestType, ResponseType};

#[test]
fn empty_body_with_early_negotiation() {
    for szx in 0..=6u8 {
        let mut h = BlockHandler::new(BlockHandlerConfig::default());
        let mut p = Packet::new();
        p.header.set_type(MessageType::Confirmable);
        p.header.code = MessageClass::Request(RequestType::Get);
        p.header.message_id = 7;
        p.set_token(vec![1, 2]);
        p.add_option(CoapOption::UriPath, b"res".to_vec());
        p.add_option_as(CoapOption::Block2, BlockValue { num: 0, more: false, size_exponent: szx });
        let mut req = CoapRequest::from_packet(p, "client");
        assert_eq!(h.intercept_request(&mut req).map_err(|e| format!("{:?}", e)), Ok(false));
        // application: 2.05 with an empty body
        req.response.as_mut().unwrap().message.header.code = MessageClass::Response(ResponseType::Content);
        req.response.as_mut().unwrap().message.payload = Vec::new();
        let r = h.intercept_response(&mut req);
        assert!(r.is_ok(), "szx {}: intercept_response on an empty body: {:?}", szx, r);
        let m = &req.response.as_ref().unwrap().message;
        assert!(m.payload.is_empty());
        if let Some(Ok(b)) = m.get_first_option_as::<BlockValue>(CoapOption::Block2) { assert_eq!((b.num, b.more), (0, false)); }
    }
}
