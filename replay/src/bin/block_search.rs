//! History search for a concrete block-wise transfer on which the handler under test violates C08-C11
//! (replay aid after a Verus/Kani obligation of unit blk failed).  Prints `FOUND <kind> <detail>` / `NONE`.
use coap_lite::block_handler::BlockValue;
use coap_lite::{BlockHandler, BlockHandlerConfig, CoapOption, CoapRequest, MessageClass, MessageType, Packet, RequestType, ResponseType};
use std::panic::{catch_unwind, AssertUnwindSafe};

fn found(kind: &str, detail: String) -> ! { println!("FOUND {} {}", kind, detail); std::process::exit(1) }

fn request(code: RequestType, mid: u16, block: Option<(CoapOption, BlockValue)>, payload: &[u8]) -> CoapRequest<&'static str> {
    let mut p = Packet::new();
    p.header.set_type(MessageType::Confirmable);
    p.header.code = MessageClass::Request(code);
    p.header.message_id = mid;
    p.set_token(vec![(mid >> 8) as u8, mid as u8]);
    p.add_option(CoapOption::UriPath, b"res".to_vec());
    if let Some((o, b)) = block { p.add_option_as(o, b); }
    p.payload = payload.to_vec();
    let bytes = p.to_bytes_unlimited().unwrap();
    CoapRequest::from_packet(Packet::from_bytes(&bytes).unwrap(), "client")
}

/// one GET exchange; `app` is called when the handler lets the request through
fn get(h: &mut BlockHandler<&'static str>, mid: u16, blk: Option<BlockValue>, body: &[u8], app_calls: &mut usize, budget: usize) -> Result<Packet, String> {
    let client_szx = blk.as_ref().map(|b| b.size_exponent);
    let mut req = request(RequestType::Get, mid, blk.map(|b| (CoapOption::Block2, b)), &[]);
    let r = catch_unwind(AssertUnwindSafe(|| -> Result<(), String> {
        if !h.intercept_request(&mut req).map_err(|e| format!("{:?}", e.code))? {
            *app_calls += 1;
            let resp = req.response.as_mut().unwrap();
            resp.message.header.code = MessageClass::Response(ResponseType::Content);
            resp.message.add_option(CoapOption::ETag, vec![1, 2, 3]);
            resp.message.payload = body.to_vec();
            h.intercept_response(&mut req).map_err(|e| format!("{:?}", e.code))?;
        }
        Ok(())
    }));
    match r { Err(_) => found("handler-panic", format!("GET mid={} budget={} body={}", mid, budget, body.len())), Ok(Err(e)) => return Err(e), Ok(Ok(())) => {} }
    let resp = req.response.unwrap().message;
    if resp.header.message_id != mid || resp.get_token() != [(mid >> 8) as u8, mid as u8] { found("reply-not-correlated", format!("mid={} got mid={} token={:?}", mid, resp.header.message_id, resp.get_token())); }
    let len = resp.to_bytes_unlimited().map(|b| b.len()).unwrap_or(usize::MAX);
    if len > budget { found("reply-exceeds-budget", format!("budget={} encoded={} body={} client={:?}", budget, len, body.len(), client_szx)); }
    Ok(resp)
}

fn download(body: &[u8], budget: usize, first_szx: Option<u8>) {
    let mut h = BlockHandler::new(BlockHandlerConfig { max_total_message_size: budget, cache_expiry_duration: std::time::Duration::from_secs(3600) });
    for round in 0..2 {   // a second transfer must reach the application again
        let mut calls = 0usize; let mut got = Vec::new(); let mut num = 0u16; let mut szx = first_szx; let mut mid = 100 + round * 1000;
        let ctx = |what: &str| format!("{} body={} budget={} client_szx={:?} round={}", what, body.len(), budget, first_szx, round);
        loop {
            let blk = if num == 0 { szx.map(|s| BlockValue { num: 0, more: false, size_exponent: s }) } else { Some(BlockValue { num, more: false, size_exponent: szx.unwrap() }) };
            let resp = match get(&mut h, mid, blk, body, &mut calls, budget) { Ok(r) => r, Err(e) => found("download-error", ctx(&e)) };
            mid += 1;
            match resp.get_first_option_as::<BlockValue>(CoapOption::Block2) {
                None => { if num != 0 { found("block2-missing", ctx("follow-up")); } got = resp.payload.clone(); break; }
                Some(Err(_)) => found("block2-undecodable", ctx("")),
                Some(Ok(b)) => {
                    let size = 16usize << b.size_exponent;
                    if let Some(s) = szx { if b.size_exponent > s { found("size-above-client", ctx("")); } }
                    if (b.num as usize) * size != got.len() { found("block-number-offset-mismatch", ctx(&format!("num={} size={} have={}", b.num, size, got.len()))); }
                    if b.more && resp.payload.len() != size { found("nonfinal-block-short", ctx(&format!("len={} size={}", resp.payload.len(), size))); }
                    if resp.get_first_option(CoapOption::ETag) != Some(&vec![1, 2, 3]) { found("response-option-not-repeated", ctx("")); }
                    got.extend_from_slice(&resp.payload);
                    if !b.more { break; }
                    szx = Some(b.size_exponent); num = b.num + 1;
                }
            }
            if got.len() > body.len() + 4096 { found("download-does-not-end", ctx("")); }
        }
        if got != body { found("download-body-differs", ctx(&format!("got {} bytes", got.len()))); }
        if calls != 1 { found("application-consulted", ctx(&format!("{} times", calls))); }
    }
}

fn upload(body: &[u8], szx: u8, dups: usize, abandoned: usize) {
    let size = 16usize << szx;
    let mut h = BlockHandler::new(BlockHandlerConfig::default());
    let ctx = |what: &str| format!("{} body={} szx={} dups={} abandoned_blocks={}", what, body.len(), szx, dups, abandoned);
    let mut mid = 1u16;
    let mut send = |h: &mut BlockHandler<&'static str>, num: u16, more: bool, p: &[u8]| -> Result<Option<Vec<u8>>, String> {
        let mut req = request(RequestType::Put, mid, Some((CoapOption::Block1, BlockValue { num, more, size_exponent: szx })), p);
        mid += 1;
        let r = catch_unwind(AssertUnwindSafe(|| h.intercept_request(&mut req)));
        match r {
            Err(_) => found("handler-panic", format!("PUT block {} of {} bytes", num, p.len())),
            Ok(Err(e)) => Err(format!("{:?}", e.code)),
            Ok(Ok(true)) => {
                let resp = &req.response.as_ref().unwrap().message;
                if resp.header.code != MessageClass::Response(ResponseType::Continue) { return Err(format!("code {:?}", resp.header.code)); }
                match resp.get_first_option_as::<BlockValue>(CoapOption::Block1) { Some(Ok(b)) if b.num == num && b.size_exponent <= szx => {}, other => return Err(format!("Block1 echo {:?}", other)) }
                Ok(None)
            }
            Ok(Ok(false)) => Ok(Some(req.message.payload.clone())),
        }
    };
    for i in 0..abandoned { let junk = vec![0xEE; size]; if let Err(e) = send(&mut h, i as u16, true, &junk) { found("upload-error", ctx(&e)) } }
    let nblocks = if body.is_empty() { 1 } else { (body.len() + size - 1) / size };
    let mut delivered = Vec::new();
    for i in 0..nblocks {
        let chunk = &body[i * size..body.len().min((i + 1) * size)];
        let last = i + 1 == nblocks;
        for d in 0..(if last { 1 } else { dups }) {
            match send(&mut h, i as u16, !last, chunk) {
                Err(e) => found("upload-error", ctx(&format!("block {} delivery {}: {}", i, d, e))),
                Ok(Some(b)) => { if !last { found("nonfinal-block-reached-application", ctx(&format!("block {}", i))); } delivered.push(b); }
                Ok(None) => { if last { found("final-block-not-delivered", ctx("")); } }
            }
        }
    }
    if delivered.len() != 1 { found("application-reached", ctx(&format!("{} times", delivered.len()))); }
    if delivered[0] != body { found("upload-body-differs", ctx(&format!("delivered {} bytes", delivered[0].len()))); }
}

fn main() {
    std::panic::set_hook(Box::new(|_| {}));
    for &budget in &[64usize, 80, 96, 128, 200, 256, 300, 1152, 1280] {
        for &len in &[0usize, 1, 15, 16, 17, 31, 32, 33, 48, 64, 100, 255, 256, 257, 1024, 1025, 3000] {
            for first in [None, Some(0u8), Some(1), Some(2), Some(4), Some(6)] { download(&vec![0x5A; len].iter().enumerate().map(|(i, _)| i as u8).collect::<Vec<u8>>(), budget, first); }
        }
    }
    for szx in 0..=2u8 { let size = 16usize << szx; for &len in &[1usize, size - 1, size, size + 1, 2 * size, 2 * size + 5, 5 * size] { for dups in 1..=3 { for abandoned in [0usize, 1, 3, 6] {
        upload(&(0..len).map(|i| (i * 7) as u8).collect::<Vec<u8>>(), szx, dups, abandoned);
    } } } }
    // hostile: far block, tiny budgets, all message types
    let mut h = BlockHandler::new(BlockHandlerConfig { max_total_message_size: 0, cache_expiry_duration: std::time::Duration::from_secs(60) });
    for budget in 0..80usize {
        h = BlockHandler::new(BlockHandlerConfig { max_total_message_size: budget, cache_expiry_duration: std::time::Duration::from_secs(60) });
        for blk in [None, Some((CoapOption::Block1, BlockValue { num: 0, more: true, size_exponent: 0 })), Some((CoapOption::Block2, BlockValue { num: 2, more: false, size_exponent: 7 })), Some((CoapOption::Block1, BlockValue { num: 4095, more: false, size_exponent: 6 }))] {
            let mut req = request(RequestType::Post, budget as u16, blk.clone(), &[1; 40]);
            if catch_unwind(AssertUnwindSafe(|| { let _ = h.intercept_request(&mut req); if let Some(r) = req.response.as_mut() { r.message.payload = vec![3; 500]; } let _ = h.intercept_response(&mut req); })).is_err() {
                found("handler-panic", format!("budget={} block={:?}", budget, blk.map(|b| (b.1.num, b.1.size_exponent))));
            }
        }
    }
    // C11: a Block1 whose offset lies more than 16 KiB past the buffered upload must be refused
    for szx in 0..=7u8 { let size = 16usize << szx; for more in [true, false] { for extra in 1..=2usize {
        let num = (16384 / size + extra) as u16;
        let mut h = BlockHandler::new(BlockHandlerConfig::default());
        let mut req = request(RequestType::Put, 7, Some((CoapOption::Block1, BlockValue { num, more, size_exponent: szx })), &[9; 8]);
        match catch_unwind(AssertUnwindSafe(|| h.intercept_request(&mut req))) {
            Err(_) => found("handler-panic", format!("PUT far block num={} szx={}", num, szx)),
            Ok(Ok(_)) => found("far-block-accepted", format!("PUT Block1 num={} szx={} more={} on an empty upload buffer: offset {} > 16384, accepted (payload now {} bytes)", num, szx, more, num as usize * size, req.message.payload.len())),
            Ok(Err(_)) => {}
        }
    } } }
    let _ = h;
    println!("NONE");
}
