//! Replay aid for C20: runs the real block handler (and the real lru_time_cache) through retention under
//! load, expiry after an idle period and reuse before it.  Uses real time (about half a second).
//! Only the "must be expired" direction is asserted after sleeping, so scheduling delays cannot raise a false alarm.
use coap_lite::block_handler::BlockValue;
use coap_lite::{BlockHandler, BlockHandlerConfig, CoapOption, CoapRequest, MessageClass, MessageType, Packet, RequestType, ResponseType};
use std::time::Duration;

fn found(kind: &str, detail: String) -> ! { println!("FOUND {} {}", kind, detail); std::process::exit(1) }

fn request(path: &str, mid: u16, block2: Option<BlockValue>) -> CoapRequest<String> {
    let mut p = Packet::new();
    p.header.set_type(MessageType::Confirmable);
    p.header.code = MessageClass::Request(RequestType::Get);
    p.header.message_id = mid;
    p.set_token(vec![mid as u8]);
    p.add_option(CoapOption::UriPath, path.as_bytes().to_vec());
    if let Some(b) = block2 { p.add_option_as(CoapOption::Block2, b); }
    CoapRequest::from_packet(p, "client".to_string())
}

/// returns true if the request reached the application
fn exchange(h: &mut BlockHandler<String>, path: &str, mid: u16, block2: Option<BlockValue>, body: &[u8]) -> bool {
    let mut req = request(path, mid, block2);
    if h.intercept_request(&mut req).unwrap_or(false) { return false; }
    let resp = req.response.as_mut().unwrap();
    resp.message.header.code = MessageClass::Response(ResponseType::Content);
    resp.message.payload = body.to_vec();
    let _ = h.intercept_response(&mut req);
    true
}

fn main() {
    let body = vec![7u8; 300];
    let blk = |n: u16| Some(BlockValue { num: n, more: false, size_exponent: 2 });
    // retention under load: one hour expiry, 2000 requests on other keys in between
    for others in [1usize, 70, 2000] {
        let mut h = BlockHandler::new(BlockHandlerConfig { max_total_message_size: 128, cache_expiry_duration: Duration::from_secs(3600) });
        if !exchange(&mut h, "a", 1, blk(0), &body) { found("first-request-not-passed-to-application", String::new()); }
        for i in 0..others { exchange(&mut h, &format!("o{}", i), 100 + i as u16, blk(0), &body); }
        if exchange(&mut h, "a", 2, blk(1), &body) { found("state-lost-before-expiry", format!("expiry 1 h, {} intervening requests on other keys: the follow-up block request reached the application", others)); }
    }
    // reuse before expiry with a sub-second duration, expiry after an idle period of >= 4 x the duration
    for ms in [40u64, 60] {
        let mut h = BlockHandler::new(BlockHandlerConfig { max_total_message_size: 128, cache_expiry_duration: Duration::from_millis(ms) });
        exchange(&mut h, "a", 1, blk(0), &body);
        std::thread::sleep(Duration::from_millis(ms * 4 + 20));
        if !exchange(&mut h, "a", 2, blk(1), &body) { found("expired-state-used", format!("expiry {} ms, idle {} ms: the follow-up block was served from the cache", ms, ms * 4 + 20)); }
    }
    {
        // a long sub-second-granular duration must not be shortened (e.g. truncated to whole seconds)
        let mut h = BlockHandler::new(BlockHandlerConfig { max_total_message_size: 128, cache_expiry_duration: Duration::from_millis(900) });
        exchange(&mut h, "a", 1, blk(0), &body);
        if exchange(&mut h, "a", 2, blk(1), &body) { found("state-lost-before-expiry", "expiry 900 ms, immediate follow-up reached the application".to_string()); }
    }
    println!("NONE");
}
