//! Native search for a concrete string on which the text helpers of the tree under test violate
//! C17 (Unquote::to_cow vs the character-by-character iterator, no panic), C19 (set_path /
//! get_path) or C06 (text option values, list accessors).  Replay aid only: never decides a verdict.
use coap_lite::link_format::{LinkFormatParser, Unquote};
use coap_lite::option_value::{OptionValueString, OptionValueU16};
use coap_lite::{CoapOption, CoapRequest, Packet};
use std::collections::LinkedList;
use std::panic::{catch_unwind, AssertUnwindSafe};

fn found(kind: &str, detail: String) -> ! { println!("FOUND {} {}", kind, detail); std::process::exit(1) }

/// reference unquoting written from the property text
fn ref_unquote(s: &str) -> String {
    let mut it = s.chars();
    let mut out = String::new();
    let mut cs = it.clone();
    if cs.next() != Some('"') { return s.to_string(); }
    it.next();
    loop {
        match it.next() {
            None | Some('"') => return out,
            Some('\\') => match it.next() { None => return out, Some(c) => out.push(c) },
            Some(c) => out.push(c),
        }
    }
}

fn strings(alphabet: &[&str], max: usize) -> Vec<String> {
    let mut all = vec![String::new()];
    let mut last = vec![String::new()];
    for _ in 0..max {
        let mut next = Vec::new();
        for p in &last { for a in alphabet { next.push(format!("{}{}", p, a)); } }
        all.extend(next.iter().cloned());
        last = next;
    }
    all
}

/// byte range of `sub` inside `whole` if it is a sub-slice of it (by address)
fn range_in(whole: &str, sub: &str) -> Option<(usize, usize)> {
    let (w, s) = (whole.as_ptr() as usize, sub.as_ptr() as usize);
    if sub.is_empty() { return Some((0, 0)); }
    if s >= w && s + sub.len() <= w + whole.len() { Some((s - w, s - w + sub.len())) } else { None }
}

fn scan_links(doc: &str) -> Result<(), String> {
    let mut pos = 0usize; // everything yielded so far ends at or before the start of what follows
    let mut errored = false;
    let mut count = 0;
    for item in LinkFormatParser::new(doc) {
        count += 1;
        if count > doc.len() + 2 { return Err("link iterator does not terminate".into()); }
        if errored { return Err("item after an error".into()); }
        match item {
            Err(_) => errored = true,
            Ok((link, attrs)) => {
                let (a, b) = range_in(doc, link).ok_or("link is not a substring of the input")?;
                if !link.is_empty() { if a < pos { return Err(format!("link {:?} out of order", link)); } pos = b; }
                let mut n = 0;
                for (key, value) in attrs {
                    n += 1;
                    if n > doc.len() + 2 { return Err("attribute iterator does not terminate".into()); }
                    let _ = (value.to_cow(), value.to_string());
                    let raw = value.into_raw_str();
                    for part in [key, raw] {
                        let (a, b) = range_in(doc, part).ok_or("attribute part is not a substring of the input")?;
                        if !part.is_empty() { if a < pos { return Err(format!("attribute part {:?} out of order", part)); } pos = b; }
                    }
                }
            }
        }
    }
    Ok(())
}

/// sink that fails at write call `k` (and, if `persistent`, at every later call)
struct FailingSink { calls: usize, k: usize, persistent: bool, failed_at: Option<usize>, written_after_failure: bool, text: String }
impl std::fmt::Write for FailingSink {
    fn write_str(&mut self, s: &str) -> std::fmt::Result {
        let i = self.calls; self.calls += 1;
        if self.failed_at.is_some() { self.written_after_failure = true; }
        if i == self.k || (self.persistent && i > self.k) { if self.failed_at.is_none() { self.failed_at = Some(i); } return Err(std::fmt::Error); }
        self.text.push_str(s); Ok(())
    }
}

fn write_doc(sink: &mut dyn std::fmt::Write, newlines: bool) -> std::fmt::Result {
    use coap_lite::link_format::LinkFormatWrite;
    let mut w = LinkFormatWrite::new(sink);
    w.set_add_newlines(newlines);
    let _ = w.link("/a").attr("rt", "x").attr_quoted("if", "s\"q\\").attr_u32("sz", 7).finish();
    let _ = w.link("/b").attr_u16("ct", 40).finish();
    let _ = w.link("/c").finish();
    w.finish()
}

fn ref_path_segments(p: &str) -> Vec<String> {
    let mut v: Vec<String> = p.split('/').map(|s| s.to_string()).collect();
    if v[0].is_empty() { v.remove(0); }
    v
}

fn main() {
    std::panic::set_hook(Box::new(|_| {}));
    let which = std::env::args().nth(1).unwrap_or_else(|| "all".into());
    if which == "all" || which == "C17" {
        for s in strings(&["\"", "\\", "a", ",", "\u{e9}", " "], 6) {
            let r = catch_unwind(AssertUnwindSafe(|| { let u = Unquote::new(&s); (u.to_cow().into_owned(), u.to_string()) }));
            match r {
                Err(_) => found("unquote-panic", format!("{:?}", s)),
                Ok((cow, it)) => {
                    if cow != it { found("to_cow-differs-from-iterator", format!("{:?}: to_cow {:?} iterator {:?}", s, cow, it)); }
                    if it != ref_unquote(&s) { found("iterator-differs-from-reference", format!("{:?}: iterator {:?}", s, it)); }
                }
            }
        }
    }
    if which == "all" || which == "C17" {
        for s in strings(&["<", ">", ";", ",", "\"", "\\", "=", " ", "a", "\u{e9}"], 5) {
            match catch_unwind(AssertUnwindSafe(|| scan_links(&s))) {
                Err(_) => found("link-parser-panic", format!("{:?}", s)),
                Ok(Err(e)) => found("link-parser", format!("{:?}: {}", s, e)),
                Ok(Ok(())) => {}
            }
        }
    }
    if which == "all" || which == "C05" {
        use coap_lite::{ContentFormat, Header, MessageClass};
        for b in 0..=255u8 {
            let class = MessageClass::from(b);
            if u8::from(class) != b { found("code-byte-identity", format!("byte {:#04x} -> {:?} -> {:#04x}", b, class, u8::from(class))); }
            let text = class.to_string();
            let want = format!("{}.{:02}", b >> 5, b & 0x1F);
            if text != want { found("dotted-text", format!("byte {:#04x} prints {:?}, expected {:?}", b, text, want)); }
            let mut h = Header::new();
            match catch_unwind(AssertUnwindSafe(|| { h.set_code(&want); (h.code, h.get_code()) })) {
                Err(_) => found("set_code-panic", format!("{:?}", want)),
                Ok((c, back)) => { if c != class || back != want { found("dotted-text-roundtrip", format!("{:?}: stored {:?}, prints {:?}", want, c, back)); } }
            }
        }
        for n in 0..=65535u16 {
            if u16::from(CoapOption::from(n)) != n { found("option-number-identity", format!("{}", n)); }
            if let Ok(cf) = ContentFormat::try_from(n as usize) { if usize::from(cf) != n as usize { found("content-format-identity", format!("{}", n)); } }
        }
    }
    if which == "all" || which == "C18" {
        for newlines in [false, true] {
            let mut clean = String::new();
            if write_doc(&mut clean, newlines).is_err() { found("writer-error-without-failure", format!("newlines={}", newlines)); }
            let mut probe = FailingSink { calls: 0, k: usize::MAX, persistent: false, failed_at: None, written_after_failure: false, text: String::new() };
            let _ = write_doc(&mut probe, newlines);
            for k in 0..probe.calls { for persistent in [false, true] {
                let mut sink = FailingSink { calls: 0, k, persistent, failed_at: None, written_after_failure: false, text: String::new() };
                let r = write_doc(&mut sink, newlines);
                let ctx = format!("newlines={} failing write call k={} persistent={}", newlines, k, persistent);
                if r.is_ok() { found("sink-failure-not-reported", ctx.clone()); }
                if sink.written_after_failure { found("write-after-failed-write", ctx.clone()); }
                if !clean.starts_with(&sink.text) { found("sink-text-not-a-prefix", format!("{}: {:?}", ctx, sink.text)); }
            } }
        }
    }
    if which == "all" || which == "C16" {
        use coap_lite::link_format::LinkFormatWrite;
        // values: every string up to length 3 over structural characters and a two-byte character, plus longer samples
        let mut values = strings(&["\"", "\\", ",", ";", "<", ">", " ", "\n", "a", "\u{e9}", "="], 3);
        values.push("x\\\"y,;<> \n\u{1F600}=\\".to_string());
        let plain = ["", "a", "ab=c", "\u{e9}x", "a b", "21\u{a0}", "\u{3000}x", "\u{85}", "x\u{2028}"];
        let targets = ["", "/", "/a/b", "a,b;c\"d e", "\u{e9}<"];
        for newlines in [false, true] {
            // (1) one link, one quoted attribute, every value
            for v in &values { for t in &targets {
                let mut text = String::new();
                { let mut w = LinkFormatWrite::new(&mut text); w.set_add_newlines(newlines); let _ = w.link(t).attr_quoted("k", v).finish(); let _ = w.finish(); }
                let got: Vec<(String, Vec<(String, String)>)> = LinkFormatParser::new(&text).map(|r| match r { Ok((l, a)) => (l.to_string(), a.map(|(k, u)| (k.to_string(), u.to_string())).collect()), Err(_) => ("<error>".into(), vec![]) }).collect();
                let want = vec![(t.to_string(), vec![("k".to_string(), v.clone())])];
                if got != want { found("link-format-roundtrip", format!("newlines={} link {:?} attr_quoted(k, {:?}) wrote {:?} parsed {:?}", newlines, t, v, text, got)); }
            } }
            // (1b) attr() decides itself whether to quote
            for v in values.iter().map(|s| s.as_str()).chain(plain.iter().copied()) {
                let mut text = String::new();
                { let mut w = LinkFormatWrite::new(&mut text); w.set_add_newlines(newlines); let _ = w.link("/t").attr("k", v).finish(); let _ = w.finish(); }
                let got: Vec<(String, Vec<(String, String)>)> = LinkFormatParser::new(&text).map(|r| match r { Ok((l, a)) => (l.to_string(), a.map(|(k, u)| (k.to_string(), u.to_string())).collect()), Err(_) => ("<error>".into(), vec![]) }).collect();
                let want = vec![("/t".to_string(), vec![("k".to_string(), v.to_string())])];
                if got != want { found("link-format-roundtrip", format!("newlines={} attr(k, {:?}) wrote {:?} parsed {:?}", newlines, v, text, got)); }
            }
            // (2) several links with all three writer methods
            for n_links in 0..4usize { for n_attrs in 0..4usize {
                let mut text = String::new();
                let mut want = vec![];
                { let mut w = LinkFormatWrite::new(&mut text); w.set_add_newlines(newlines);
                  for i in 0..n_links {
                    let t = targets[(i + n_attrs) % targets.len()];
                    let mut a = w.link(t); let mut wa = vec![];
                    for j in 0..n_attrs {
                        let key = ["rt", "if", "sz", "x"][j];
                        match (i + j) % 3 {
                            0 => { let v = &values[(7 * i + 13 * j + 5) % values.len()]; a = a.attr_quoted(key, v); wa.push((key.to_string(), v.clone())); }
                            1 => { let v = plain[(i + j) % plain.len()]; a = a.attr(key, v); wa.push((key.to_string(), v.to_string())); }
                            _ => { let v = [0u32, 7, 40, 4294967295][(i + j) % 4]; a = a.attr_u32(key, v); wa.push((key.to_string(), v.to_string())); }
                        }
                    }
                    let _ = a.finish(); want.push((t.to_string(), wa));
                  }
                  let _ = w.finish(); }
                let got: Vec<(String, Vec<(String, String)>)> = LinkFormatParser::new(&text).map(|r| match r { Ok((l, a)) => (l.to_string(), a.map(|(k, u)| (k.to_string(), u.to_string())).collect()), Err(_) => ("<error>".into(), vec![]) }).collect();
                if got != want { found("link-format-roundtrip", format!("newlines={} {} links x {} attrs: wrote {:?} parsed {:?} expected {:?}", newlines, n_links, n_attrs, text, got, want)); }
            } }
        }
    }
    if which == "all" || which == "C19" {
        for s in strings(&["/", "a", "b\u{e9}"], 5) { for prior in [None, Some(""), Some("/"), Some("a"), Some("/a"), Some("a/"), Some("//")] {
            let mut req: CoapRequest<&'static str> = CoapRequest::new();
            match prior { None => req.message.add_option(CoapOption::UriPath, b"old".to_vec()), Some(p) => req.set_path(p) }
            req.message.add_option(CoapOption::UriHost, b"h".to_vec());
            req.set_path(&s);
            let ctx = format!("set_path({:?}) after {:?}", s, prior);
            let want = ref_path_segments(&s);
            let got: Vec<String> = req.message.get_option(CoapOption::UriPath).map(|l| l.iter().map(|v| String::from_utf8_lossy(v).into_owned()).collect()).unwrap_or_default();
            if got != want { found("set_path-options", format!("{}: Uri-Path options {:?}, expected {:?}", ctx, got, want)); }
            if req.message.get_option(CoapOption::UriHost).map(|l| l.len()) != Some(1) { found("set_path-touched-other-option", ctx); }
            let back = req.get_path();
            let expect = s.strip_prefix('/').unwrap_or(&s);
            if back != expect { found("get_path-after-set_path", format!("{}: get_path {:?}, expected {:?}", ctx, back, expect)); }
        } }
    }
    if which == "all" || which == "C19" {
        // the generic coap-message views (0.3 and 0.2): code, payload, options in ascending number order
        let mut p = Packet::new();
        p.header.code = coap_lite::MessageClass::Response(coap_lite::ResponseType::Content);
        p.payload = vec![1, 2, 3];
        for (n, v) in [(11u16, b"b".to_vec()), (3, b"h".to_vec()), (11, b"a".to_vec()), (258, vec![]), (11, b"c".to_vec()), (6, vec![0])] { p.add_option(CoapOption::from(n), v); }
        // an option that was cleared leaves an entry with an empty value list behind: it must simply be skipped
        p.add_option(CoapOption::ETag, vec![9]); p.clear_option(CoapOption::ETag);
        p.add_option(CoapOption::IfMatch, vec![8]); p.clear_option(CoapOption::IfMatch);
        let want: Vec<(u16, Vec<u8>)> = vec![(3, b"h".to_vec()), (6, vec![0]), (11, b"b".to_vec()), (11, b"a".to_vec()), (11, b"c".to_vec()), (258, vec![])];
        {
            use coap_message_0_3::{MessageOption, MinimalWritableMessage, ReadableMessage};
            let got: Vec<(u16, Vec<u8>)> = ReadableMessage::options(&p).map(|o| (o.number(), o.value().to_vec())).collect();
            if got != want { found("coap-message-0.3-options", format!("{:?}", got)); }
            if ReadableMessage::payload(&p) != [1, 2, 3] || ReadableMessage::code(&p) != p.header.code { found("coap-message-0.3-code-payload", String::new()); }
            let mut q = Packet::new();
            MinimalWritableMessage::set_code(&mut q, ReadableMessage::code(&p));
            for o in ReadableMessage::options(&p) { MinimalWritableMessage::add_option(&mut q, CoapOption::from(o.number()), o.value()).unwrap(); }
            MinimalWritableMessage::set_payload(&mut q, ReadableMessage::payload(&p)).unwrap();
            if q.header.code != p.header.code || q.payload != p.payload || ReadableMessage::options(&q).map(|o| (o.number(), o.value().to_vec())).collect::<Vec<_>>() != want { found("coap-message-0.3-copy", String::new()); }
        }
        {
            use coap_message_0_2::{MessageOption, MinimalWritableMessage, ReadableMessage};
            let got: Vec<(u16, Vec<u8>)> = ReadableMessage::options(&p).map(|o| (o.number(), o.value().to_vec())).collect();
            if got != want { found("coap-message-0.2-options", format!("{:?}", got)); }
            let mut q = Packet::new();
            MinimalWritableMessage::set_code(&mut q, ReadableMessage::code(&p));
            for o in ReadableMessage::options(&p) { MinimalWritableMessage::add_option(&mut q, CoapOption::from(o.number()), o.value()); }
            MinimalWritableMessage::set_payload(&mut q, ReadableMessage::payload(&p));
            if q.header.code != p.header.code || q.payload != p.payload { found("coap-message-0.2-copy", String::new()); }
        }
    }
    if which == "all" || which == "C07" {
        use coap_lite::{CoapResponse, MessageClass, MessageType, ResponseType};
        for ty in [MessageType::Confirmable, MessageType::NonConfirmable, MessageType::Acknowledgement, MessageType::Reset] { for code in 0..=255u8 { for tkl in [0usize, 1, 8] {
            let mut p = Packet::new();
            p.header.set_type(ty); p.header.code = MessageClass::from(code); p.header.message_id = 0xBEEF; p.header.set_version(2);
            p.set_token((1..=tkl as u8).collect()); p.payload = vec![1, 2, 3]; p.add_option(CoapOption::UriPath, b"x".to_vec());
            let r = CoapResponse::new(&p);
            let expect_some = matches!(ty, MessageType::Confirmable | MessageType::NonConfirmable);
            let ctx = format!("request type {:?} code {:#04x} token length {}", ty, code, tkl);
            match r {
                None => if expect_some { found("no-response-prepared", ctx) },
                Some(resp) => {
                    if !expect_some { found("response-prepared-for-ack-or-reset", ctx.clone()); }
                    let m = &resp.message;
                    let want_ty = if ty == MessageType::Confirmable { MessageType::Acknowledgement } else { MessageType::NonConfirmable };
                    if m.header.get_type() != want_ty || m.header.get_version() != 1 || m.header.message_id != 0xBEEF || m.get_token() != p.get_token()
                        || m.header.code != MessageClass::Response(ResponseType::Content) || !m.payload.is_empty() || m.options().count() != 0 {
                        found("response-not-correlated", ctx);
                    }
                }
            }
        } } }
    }
    if which == "all" || which == "C19" {
        // observe flag accessor vs the raw option, for raw values of 0..6 bytes
        use coap_lite::ObserveOption;
        let bytes = [0u8, 1, 2, 0x80, 0xFF];
        let mut raws: Vec<Vec<u8>> = vec![vec![]];
        for len in 1..=5usize { let mut idx = vec![0usize; len]; loop { raws.push(idx.iter().map(|&i| bytes[i]).collect()); let mut k = 0; while k < len { idx[k] += 1; if idx[k] < bytes.len() { break; } idx[k] = 0; k += 1; } if k == len { break; } } }
        for raw in raws {
            let mut req: CoapRequest<&'static str> = CoapRequest::new();
            req.message.add_option(CoapOption::Observe, raw.clone());
            let val = if raw.len() <= 4 { Some(raw.iter().fold(0u64, |a, b| a * 256 + *b as u64)) } else { None };
            let want = match val { Some(0) => Some(ObserveOption::Register), Some(1) => Some(ObserveOption::Deregister), _ => None };
            match req.get_observe_flag() {
                Some(Ok(f)) => if Some(f) != want { found("observe-flag-named-for-unnamed-value", format!("raw Observe value {:?} reads as {:?}", raw, f)); },
                Some(Err(_)) => if want.is_some() { found("observe-flag-error-for-named-value", format!("raw {:?}", raw)); },
                None => found("observe-flag-missing", format!("raw {:?}", raw)),
            }
        }
    }
    if which == "all" || which == "C06" {
        for s in strings(&["a", "\u{e9}", "\u{1F600}", "/"], 4) {
            let raw: Vec<u8> = OptionValueString(s.clone()).into();
            if raw != s.as_bytes() { found("text-option-bytes", format!("{:?}", s)); }
            match OptionValueString::try_from(raw) { Ok(v) if v.0 == s => {}, other => found("text-option-roundtrip", format!("{:?}: {:?}", s, other.map(|v| v.0).map_err(|e| e.message))) }
        }
        for bad in [vec![0xFFu8], vec![0xC3], vec![0xE2, 0x82], vec![b'a', 0x80]] {
            if OptionValueString::try_from(bad.clone()).is_ok() { found("invalid-utf8-accepted", format!("{:?}", bad)); }
        }
        for vals in [vec![], vec![0u16], vec![1, 0, 65535], vec![256, 255, 13, 269]] {
            let mut p = Packet::new();
            p.add_option(CoapOption::ETag, vec![9]);
            let l: LinkedList<OptionValueU16> = vals.iter().map(|v| OptionValueU16(*v)).collect();
            p.set_options_as(CoapOption::Size1, l);
            let back: Vec<u16> = p.get_options_as::<OptionValueU16>(CoapOption::Size1).map(|l| l.into_iter().map(|r| r.map(|v| v.0).unwrap_or(0xDEAD)).collect()).unwrap_or_default();
            if back != vals { found("list-accessor-roundtrip", format!("{:?}: read back {:?}", vals, back)); }
            if p.get_option(CoapOption::ETag).map(|l| l.len()) != Some(1) { found("list-accessor-touched-other-option", format!("{:?}", vals)); }
        }
    }
    println!("NONE");
}
