//! Boundary-value search for a concrete message / datagram on which the crate under test violates
//! C01-C04, against the reference implementation in lib.rs.  Prints `FOUND <kind> <hex...>` and exits 1
//! for the first discrepancy, `NONE` and exit 0 otherwise.
use coap_lite::{CoapOption, MessageClass, Packet};
use coap_lite_verif_replay::reference::{decode, encode, lenient, Msg};
use std::panic::{catch_unwind, AssertUnwindSafe};

fn hex(b: &[u8]) -> String { let n = b.len().min(600); let mut s: String = b[..n].iter().map(|x| format!("{:02x}", x)).collect(); if b.len() > n { s.push_str(&format!("..(+{} bytes)", b.len() - n)); } s }

fn build(m: &Msg, token_first: bool) -> Packet {
    let mut p = Packet::new();
    let set_hdr = |p: &mut Packet| {
        p.header.set_version(m.vtt >> 6);
        p.header.set_type(match (m.vtt >> 4) & 3 { 0 => coap_lite::MessageType::Confirmable, 1 => coap_lite::MessageType::NonConfirmable, 2 => coap_lite::MessageType::Acknowledgement, _ => coap_lite::MessageType::Reset });
    };
    if token_first { p.set_token(m.token.clone()); set_hdr(&mut p); } else { set_hdr(&mut p); p.set_token(m.token.clone()); }
    p.header.code = MessageClass::from(m.code);
    p.header.message_id = m.mid;
    for (n, v) in &m.opts { p.add_option(CoapOption::from(*n), v.clone()); }
    p.payload = m.payload.clone();
    p
}

fn same(p: &Packet, m: &Msg) -> bool {
    let mut opts = vec![];
    for (n, l) in p.options() { for v in l.iter() { opts.push((*n, v.clone())); } }
    p.header.get_version() == m.vtt >> 6 && p.header.get_token_length() as usize == m.token.len() && p.get_token() == &m.token[..]
        && u8::from(p.header.code) == m.code && p.header.message_id == m.mid && opts == m.opts && p.payload == m.payload
        && (match p.header.get_type() { coap_lite::MessageType::Confirmable => 0, coap_lite::MessageType::NonConfirmable => 1, coap_lite::MessageType::Acknowledgement => 2, _ => 3 }) == (m.vtt >> 4) & 3
}

fn found(kind: &str, detail: &str) -> ! { println!("FOUND {} {}", kind, detail); std::process::exit(1) }

fn check_msg(m: &Msg) {
    for token_first in [true, false] {
        let p = build(m, token_first);
        let want = encode(m);
        let got = catch_unwind(AssertUnwindSafe(|| p.to_bytes_unlimited()));
        match (&want, &got) {
            (_, Err(_)) => found("encoder-panic", &format!("{:?}", m.opts.iter().map(|(n, v)| (*n, v.len())).collect::<Vec<_>>())),
            (Some(w), Ok(Ok(g))) => {
                if w != g { found("wire-image-differs", &format!("opts={:?} token={} payload={} code={:#x} expected={} got={}", m.opts.iter().map(|(n, v)| (*n, v.len())).collect::<Vec<_>>(), m.token.len(), m.payload.len(), m.code, hex(w), hex(g))); }
                // limit: exactly at len-1 / len
                let l = w.len();
                if p.to_bytes_with_limit(l).is_err() { found("limit-refuses-exact-fit", &format!("len={} msg={}", l, hex(w))); }
                if l > 0 && p.to_bytes_with_limit(l - 1).is_ok() { found("limit-accepts-too-long", &format!("len={} limit={} msg={}", l, l - 1, hex(w))); }
                // decode back
                match catch_unwind(|| Packet::from_bytes(w)) {
                    Ok(Ok(q)) => { let mut back = m.clone(); if m.code == 0 { back.payload.clear(); } if !same(&q, &back) { found("decode-back-differs", &hex(w)); } }
                    Ok(Err(e)) => found("own-encoding-rejected", &format!("{:?} {}", e, hex(w))),
                    Err(_) => found("decoder-panic", &hex(w)),
                }
            }
            (Some(w), Ok(Err(e))) => found("encodable-message-refused", &format!("{:?} {}", e, hex(w))),
            (None, Ok(Ok(g))) => found("unencodable-value-emitted", &format!("value too long for 16-bit length, got {} bytes", g.len())),
            (None, Ok(Err(_))) => {}
        }
    }
}

fn check_bytes(b: &[u8]) {
    let want = decode(b);
    match catch_unwind(|| Packet::from_bytes(b)) {
        Err(_) => found("decoder-panic", &hex(b)),
        Ok(got) => match (want, got) {
            (Err(()), Ok(_)) => found("malformed-accepted", &hex(b)),
            (Ok(m), Err(e)) => { if !lenient(b) { found("wellformed-rejected", &format!("{:?} {}", e, hex(b))); } let _ = m; }
            (Ok(m), Ok(p)) => {
                if !same(&p, &m) { found("decoded-fields-differ", &hex(b)); }
                // C02: re-encoding reproduces the input up to the two permitted differences
                let mut canon = m.clone(); if m.code == 0 { canon.payload.clear(); }
                let cb = encode(&canon).unwrap();
                match p.to_bytes_unlimited() { Ok(g) => if g != cb { found("reencode-differs", &format!("in={} out={}", hex(b), hex(&g))); }, Err(e) => found("reencode-refused", &format!("{:?} {}", e, hex(b))) }
            }
            (Err(()), Err(_)) => {}
        },
    }
}

fn main() {
    std::panic::set_hook(Box::new(|_| {}));
    let lens = [0usize, 1, 12, 13, 14, 255, 256, 268, 269, 270, 300];
    let nums = [0u16, 1, 11, 12, 13, 14, 23, 27, 60, 258, 268, 269, 270, 281, 282, 300, 65535];
    // messages: one and two options at the thresholds, all header shapes on a few
    for &n1 in &nums { for &l1 in &lens {
        let m = Msg { vtt: 0x40, code: 1, mid: 0x1234, token: vec![], opts: vec![(n1, vec![0xAB; l1])], payload: vec![] };
        check_msg(&m);
        for &n2 in &nums { if n2 < n1 { continue; } for &l2 in &[0usize, 13, 269] {
            let m2 = Msg { vtt: 0x58, code: 0x45, mid: 7, token: vec![1, 2, 3, 4, 5, 6, 7, 8], opts: vec![(n1, vec![1; l1]), (n2, vec![2; l2])], payload: vec![9, 9] };
            check_msg(&m2);
        } }
    } }
    for vtt_hi in 0..16u8 { for tkl in 0..=8usize { for &code in &[0u8, 1, 0x45, 0x5f, 0xa8, 0xff, 0x20] { for &pl in &[0usize, 1, 5] {
        let m = Msg { vtt: vtt_hi << 4 | tkl as u8, code, mid: 0xfffe, token: (0..tkl as u8).collect(), opts: vec![(11, b"a".to_vec()), (11, b"bc".to_vec()), (258, vec![])], payload: vec![0x55; pl] };
        check_msg(&m);
    } } } }
    // over-long value (65805 bytes) and longest encodable (65804)
    for &l in &[65804usize, 65805] { check_msg(&Msg { vtt: 0x40, code: 2, mid: 1, token: vec![], opts: vec![(35, vec![7; l])], payload: vec![] }); }
    // datagrams: every option header byte with boundary extension values, truncations, prefixes
    let heads: [&[u8]; 4] = [&[0x40, 1, 0, 0], &[0x48, 1, 0, 0, 1, 2, 3, 4, 5, 6, 7, 8], &[0x41, 0x45, 0xff, 0xff, 9], &[0x70, 0, 1, 2]];
    let exts: [&[u8]; 12] = [&[], &[0], &[1], &[0xf2], &[0xf3], &[0xff], &[0, 0], &[0, 1], &[0xfe, 0xf2], &[0xfe, 0xf3], &[0xff, 0xff], &[0, 0, 0]];
    for h in heads.iter() { for ob in 0..=255u8 { for e1 in exts.iter() { for e2 in exts.iter() { for &tail in &[0usize, 1, 13, 14, 300] {
        let mut b = h.to_vec(); b.push(ob); b.extend_from_slice(e1); b.extend_from_slice(e2); b.extend(std::iter::repeat(0x11).take(tail));
        check_bytes(&b);
        let mut b2 = b.clone(); b2.push(0xff); check_bytes(&b2); b2.push(1); check_bytes(&b2);
    } } } } }
    for n in 0..13usize { check_bytes(&[0x4f, 1, 2, 3, 4, 5, 6, 7, 8, 9, 10, 11, 12][..n]); check_bytes(&[0x49, 1, 2, 3, 4, 5, 6, 7, 8, 9, 10, 11, 12][..n]); }
    // cumulative option number overflow
    check_bytes(&[0x40, 1, 0, 0, 0xe0, 0xfe, 0xf2, 0xe0, 0x00, 0x00]);
    check_bytes(&[0x40, 1, 0, 0, 0xe0, 0xfe, 0xf2, 0x10]);
    // C01: header fields and token set repeatedly, in any order, on one packet (setters must replace, not accumulate)
    {
        use coap_lite::{MessageType, Packet};
        for (t1, t2) in [(4usize, 2usize), (8, 0), (0, 8), (3, 5), (1, 1)] { for (ty1, ty2) in [(MessageType::Reset, MessageType::Confirmable), (MessageType::NonConfirmable, MessageType::Acknowledgement)] {
            let mut p = Packet::new();
            p.header.set_version(3); p.set_token((0..t1 as u8).collect()); p.header.set_type(ty1);
            p.header.set_version(1); p.header.set_type(ty2); p.set_token((10..10 + t2 as u8).collect());
            p.header.message_id = 0x0102;
            let want_vtt = (1u8 << 6) | (match ty2 { MessageType::Confirmable => 0u8, MessageType::NonConfirmable => 1, MessageType::Acknowledgement => 2, MessageType::Reset => 3 } << 4) | t2 as u8;
            match p.to_bytes() {
                Ok(b) if b[0] == want_vtt && b[4..] == (10..10 + t2 as u8).collect::<Vec<u8>>()[..] => {}
                other => found("setters-accumulate", &format!("token {} then {} bytes, type set twice: first byte expected {:#04x}, encoded {:?}", t1, t2, want_vtt, other.map(|b| b.iter().map(|x| format!("{:02x}", x)).collect::<String>()))),
            }
        } }
    }
    println!("NONE");
}
