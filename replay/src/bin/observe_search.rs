//! History search for the observe registry (replay aid for C14/C15): all operation sequences up to depth 5
//! over 2 endpoints x 2 tokens x 2 paths x 2 message ids x {CON, NON} x limits {0, 1, 255(long run)}, compared step
//! by step with a reference model written from the property text.  Prints `FOUND <kind> <history>` / `NONE`.
use coap_lite::{CoapOption, CoapRequest, Packet, Subject};

#[derive(Clone, Debug, PartialEq)]
struct Obs { ep: u8, token: Vec<u8>, unack: u32, mid: Option<u16> }
#[derive(Clone, Debug, PartialEq, Default)]
struct Res { seq: u32, base: Option<u32>, obs: Vec<Obs> }   // base: sequence number the implementation gave the resource when it was created (C15 fixes the step, not the start)
#[derive(Clone, Debug)]
enum Op { Reg(u8, u8, u8), Dereg(u8, u8, u8), Changed(u8, u16, bool), Ack(u8, u16) }

fn req(ep: u8, tok: u8, path: u8, mid: u16) -> CoapRequest<String> {
    let mut p = Packet::new();
    p.set_token(vec![tok]);
    p.header.message_id = mid;
    p.add_option(CoapOption::UriPath, vec![b'a' + path]);
    let mut r = CoapRequest::from_packet(p, format!("ep{}", ep));
    r.source = Some(format!("ep{}", ep));
    r
}
fn path(p: u8) -> String { ((b'a' + p) as char).to_string() }

fn apply_model(m: &mut std::collections::BTreeMap<String, Res>, limit: u32, op: &Op) {
    match *op {
        Op::Reg(ep, tok, p) => { let r = m.entry(path(p)).or_default(); let o = Obs { ep, token: vec![tok], unack: 0, mid: None }; if let Some(i) = r.obs.iter().position(|x| x.ep == ep) { r.obs[i] = o } else { r.obs.push(o) } }
        Op::Dereg(ep, tok, p) => { if let Some(r) = m.get_mut(&path(p)) { if let Some(i) = r.obs.iter().position(|x| x.ep == ep && x.token == vec![tok]) { r.obs.remove(i); } } }
        Op::Changed(p, mid, con) => { if let Some(r) = m.get_mut(&path(p)) { r.seq += 1; for o in r.obs.iter_mut() { o.mid = Some(mid); if con { o.unack += 1; } } r.obs.retain(|o| o.unack <= limit); } }
        Op::Ack(ep, mid) => { for r in m.values_mut() { if let Some(o) = r.obs.iter_mut().find(|o| o.ep == ep && o.mid == Some(mid)) { o.unack = 0; o.mid = None; } } }
    }
}
fn apply_real(s: &mut Subject<String>, op: &Op) {
    match *op {
        Op::Reg(ep, tok, p) => s.register(&req(ep, tok, p, 0)),
        Op::Dereg(ep, tok, p) => s.deregister(&req(ep, tok, p, 0)),
        Op::Changed(p, mid, con) => s.resource_changed(&path(p), mid, con),
        Op::Ack(ep, mid) => s.acknowledge(&req(ep, 0, 0, mid)),
    }
}
fn agree(s: &Subject<String>, m: &mut std::collections::BTreeMap<String, Res>) -> bool {
    for p in 0..2u8 {
        match (s.get_resource(&path(p)), m.get_mut(&path(p))) {
            (None, None) => {}
            (Some(r), Some(mr)) => {
                let base = *mr.base.get_or_insert(r.sequence.wrapping_sub(mr.seq));
                if r.sequence != base.wrapping_add(mr.seq) || r.observers.len() != mr.obs.len() { return false; }
                for (o, mo) in r.observers.iter().zip(mr.obs.iter()) { if o.endpoint != format!("ep{}", mo.ep) || o.token != mo.token { return false; } }
            }
            _ => return false,
        }
    }
    true
}
fn found(kind: &str, h: &[Op]) -> ! { println!("FOUND {} {:?}", kind, h); std::process::exit(1) }

fn explore(limit: u8, ops: &[Op], depth: usize, hist: &mut Vec<Op>) {
    if hist.len() == depth { return; }
    for op in ops {
        hist.push(op.clone());
        let mut s = Subject::<String>::default(); s.set_unacknowledged_limit(limit);
        let mut m = std::collections::BTreeMap::new();
        for o in hist.iter() {
            let r = std::panic::catch_unwind(std::panic::AssertUnwindSafe(|| apply_real(&mut s, o)));
            if r.is_err() { found("panic", hist); }
            apply_model(&mut m, limit as u32, o);
            if !agree(&s, &mut m) { found("registry-differs-from-model", hist); }
        }
        explore(limit, ops, depth, hist);
        hist.pop();
    }
}

fn main() {
    std::panic::set_hook(Box::new(|_| {}));
    let mut ops = vec![];
    for ep in 0..2 { for tok in 0..2 { for p in 0..2 { ops.push(Op::Reg(ep, tok, p)); ops.push(Op::Dereg(ep, tok, p)); } } }
    for p in 0..2 { for mid in 1..3 { for con in [true, false] { ops.push(Op::Changed(p, mid, con)); } } }
    for ep in 0..2 { for mid in 1..3 { ops.push(Op::Ack(ep, mid)); } }
    for limit in [0u8, 1] { explore(limit, &ops, 4, &mut vec![]); }
    // three endpoints: order after deregistration in the middle
    { let h = vec![Op::Reg(0, 0, 0), Op::Reg(1, 0, 0), Op::Reg(2, 0, 0), Op::Dereg(0, 0, 0), Op::Reg(3, 1, 0), Op::Dereg(2, 0, 0)];
      let mut s = Subject::<String>::default(); let mut m = std::collections::BTreeMap::new();
      for o in &h { apply_real(&mut s, o); apply_model(&mut m, 10, o); if !agree(&s, &mut m) { found("registry-differs-from-model", &h); } } }
    // long confirmable runs at limits 10, 254, 255
    for limit in [10u8, 254, 255] {
        let mut s = Subject::<String>::default(); s.set_unacknowledged_limit(limit);
        let mut m = std::collections::BTreeMap::new();
        let mut h = vec![Op::Reg(0, 0, 0)];
        apply_real(&mut s, &h[0]); apply_model(&mut m, limit as u32, &h[0]);
        for i in 0..600u16 {
            let op = Op::Changed(0, i, true); h.push(op.clone());
            if std::panic::catch_unwind(std::panic::AssertUnwindSafe(|| apply_real(&mut s, &op))).is_err() { found("panic", &h[h.len() - 2..]); }
            apply_model(&mut m, limit as u32, &op);
            if !agree(&s, &mut m) { println!("FOUND eviction-differs limit={} after {} confirmable rounds", limit, i + 1); std::process::exit(1); }
        }
    }
    // pseudo-random longer histories (fixed generator, so a replay finds the same history again)
    let mut x: u64 = 0x9E3779B97F4A7C15;
    let mut rnd = move |n: usize| -> usize { x ^= x << 13; x ^= x >> 7; x ^= x << 17; (x % n as u64) as usize };
    for limit in [1u8, 2] { for _ in 0..20000 {
        let len = 5 + rnd(8);
        let h: Vec<Op> = (0..len).map(|_| ops[rnd(ops.len())].clone()).collect();
        let mut s = Subject::<String>::default(); s.set_unacknowledged_limit(limit);
        let mut m = std::collections::BTreeMap::new();
        for (i, o) in h.iter().enumerate() {
            if std::panic::catch_unwind(std::panic::AssertUnwindSafe(|| apply_real(&mut s, o))).is_err() { found("panic", &h[..=i]); }
            apply_model(&mut m, limit as u32, o);
            if !agree(&s, &mut m) { println!("FOUND registry-differs-from-model limit={} {:?}", limit, &h[..=i]); std::process::exit(1); }
        }
    } }
    println!("NONE");
}
