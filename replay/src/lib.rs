//! Native search/replay support: an independent reference implementation of the RFC 7252 section 3
//! message format (written from the RFC, not from coap-lite) used to look for a concrete input on
//! which the crate under test disagrees, when a Verus obligation of C01-C04 fails.  The search is a
//! replay aid only - it never decides a verdict.
pub mod reference {
    #[derive(Clone, Debug, PartialEq)]
    pub struct Msg {
        pub vtt: u8,
        pub code: u8,
        pub mid: u16,
        pub token: Vec<u8>,
        pub opts: Vec<(u16, Vec<u8>)>, // wire order: ascending number, insertion order within a number
        pub payload: Vec<u8>,
    }

    fn ext(out: &mut Vec<u8>, x: usize) {
        if x >= 269 { let f = x - 269; out.push((f >> 8) as u8); out.push((f & 0xff) as u8); }
        else if x >= 13 { out.push((x - 13) as u8); }
    }
    fn nib(x: usize) -> u8 { if x < 13 { x as u8 } else if x < 269 { 13 } else { 14 } }

    /// wire image; None if a value does not fit the 16-bit extended length
    pub fn encode(m: &Msg) -> Option<Vec<u8>> {
        let mut out = vec![m.vtt, m.code, (m.mid >> 8) as u8, (m.mid & 0xff) as u8];
        out.extend_from_slice(&m.token);
        let mut prev = 0usize;
        for (n, v) in &m.opts {
            if v.len() > 65535 + 269 { return None; }
            let d = *n as usize - prev;
            out.push(nib(d) << 4 | nib(v.len()));
            ext(&mut out, d);
            ext(&mut out, v.len());
            out.extend_from_slice(v);
            prev = *n as usize;
        }
        if m.code != 0 && !m.payload.is_empty() { out.push(0xFF); out.extend_from_slice(&m.payload); }
        Some(out)
    }

    /// three-valued verdict of C03: Ok(msg) = well formed, Err(()) = must reject
    pub fn decode(b: &[u8]) -> Result<Msg, ()> {
        if b.len() < 4 { return Err(()); }
        let tkl = (b[0] & 0x0f) as usize;
        if tkl > 8 || 4 + tkl > b.len() { return Err(()); }
        let mut m = Msg { vtt: b[0], code: b[1], mid: (b[2] as u16) << 8 | b[3] as u16, token: b[4..4 + tkl].to_vec(), opts: vec![], payload: vec![] };
        let mut i = 4 + tkl;
        let mut num = 0usize;
        while i < b.len() {
            if b[i] == 0xFF { m.payload = b[i + 1..].to_vec(); break; }
            let (dn, ln) = ((b[i] >> 4) as usize, (b[i] & 15) as usize);
            i += 1;
            if dn == 15 || ln == 15 { return Err(()); }
            let mut rd = |nibble: usize, i: &mut usize| -> Result<usize, ()> {
                match nibble {
                    13 => { if *i >= b.len() { return Err(()); } let v = b[*i] as usize + 13; *i += 1; Ok(v) }
                    14 => { if *i + 1 >= b.len() { return Err(()); } let v = ((b[*i] as usize) << 8 | b[*i + 1] as usize) + 269; *i += 2; Ok(v) }
                    n => Ok(n),
                }
            };
            let d = rd(dn, &mut i)?;
            let l = rd(ln, &mut i)?;
            num += d;
            if num > 65535 || i + l > b.len() { return Err(()); }
            m.opts.push((num as u16, b[i..i + l].to_vec()));
            i += l;
        }
        Ok(m)
    }
    /// datagrams on which a stricter RFC-conformant parser may differ (C03 "either")
    pub fn lenient(b: &[u8]) -> bool {
        b.len() >= 4 && ((b[0] >> 6) != 1 || (b[1] == 0 && b.len() > 4) || b.last() == Some(&0xFF))
    }
}
