//! native demonstrations (failing inputs / histories) of the defects found by the checks
