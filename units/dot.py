"""Unit `dot`: the dotted c.dd text form of a code (C05): `Display for MessageClass`,
`Header::set_code`, `Header::get_code`.

Verified verbatim: the bit arithmetic that splits a code byte into class and detail and joins
them again, the runtime assertions of set_code (as static obligations under a precondition on the
text), and the conversions byte <-> MessageClass underneath (registry spec).  Assumed (std
formatting and parsing, R15/R37): `write!(f, "{}.{:02}", a, b)` appends decimal(a) "." two-digit
decimal(b); `str::parse::<u8>` accepts every string of decimal digits whose value fits;
`str::split('.')` == split_on; `to_string()` == the text `Display::fmt` writes.
Theorem: for every code byte b, set_code(get_code text of b) stores class_of_u8(b), and the text is
exactly four characters c '.' d d."""
import re

from vf.unit import Unit
from . import common

NAME = 'dot'
PROPS = ['C05']
RLIMIT = 30

SPEC = r'''
// ---- decimal text
pub open spec fn digit(n: int) -> char { if n == 0 { '0' } else if n == 1 { '1' } else if n == 2 { '2' } else if n == 3 { '3' } else if n == 4 { '4' }
    else if n == 5 { '5' } else if n == 6 { '6' } else if n == 7 { '7' } else if n == 8 { '8' } else { '9' } }
pub open spec fn digit_val(c: char) -> Option<int> { if c == '0' { Some(0int) } else if c == '1' { Some(1int) } else if c == '2' { Some(2int) } else if c == '3' { Some(3int) }
    else if c == '4' { Some(4int) } else if c == '5' { Some(5int) } else if c == '6' { Some(6int) } else if c == '7' { Some(7int) } else if c == '8' { Some(8int) }
    else if c == '9' { Some(9int) } else { None } }
// `{}` of an unsigned number: shortest decimal text
pub open spec fn dec(n: nat) -> Seq<char> decreases n { if n < 10 { seq![digit(n as int)] } else { dec(n / 10).push(digit((n % 10) as int)) } }
// `{:02}`: at least two digits, zero padded
pub open spec fn dec2(n: nat) -> Seq<char> { if n < 10 { seq!['0', digit(n as int)] } else { dec(n) } }
// value of a string of decimal digits (what str::parse accepts at least)
pub open spec fn dec_val(t: Seq<char>) -> Option<nat>
    decreases t.len()
{
    if t.len() == 0 { None }
    else if digit_val(t.last()) is None { None }
    else if t.len() == 1 { Some(digit_val(t.last())->0 as nat) }
    else { match dec_val(t.drop_last()) { Some(v) => Some((v * 10 + digit_val(t.last())->0) as nat), None => None } }
}
pub open spec fn split_on(s: Seq<char>, c: char) -> Seq<Seq<char>>
    decreases s.len()
{
    if s.len() == 0 { seq![Seq::<char>::empty()] }
    else {
        let rest = split_on(s.drop_last(), c);
        if s.last() == c { rest.push(Seq::<char>::empty()) }
        else { rest.drop_last().push(rest.last().push(s.last())) }
    }
}
// C05: the dotted text of a code byte: class (3 bits) "." detail (5 bits, two digits)
pub open spec fn dotted(b: u8) -> Seq<char> { dec((b / 32) as nat).push('.') + dec2((b % 32) as nat) }

// ---- std formatting / parsing (assumed)
#[verifier::external_type_specification]
#[verifier::external_body]
pub struct ExParseIntError(core::num::ParseIntError);
pub uninterp spec fn fmt_out<'a>(f: core::fmt::Formatter<'a>) -> Seq<char>;
// R15: write!(f, "{}.{:02}", a, b)
#[verifier::external_body]
pub fn fmt_write_dotted<'a>(f: &mut core::fmt::Formatter<'a>, a: u8, b: u8) -> (r: core::fmt::Result)
    ensures r is Ok ==> fmt_out(*final(f)) == fmt_out(*old(f)) + (dec(a as nat).push('.') + dec2(b as nat))
{ unimplemented!() }
// ToString (std): the text Display::fmt writes - by the contract of fmt below that is dotted(byte)
#[verifier::external_body]
pub fn class_to_string(c: &MessageClass) -> (r: String) ensures r@ == dotted(u8_of_class(*c)) { unimplemented!() }
#[verifier::external_body]
pub fn str_split_char<'a>(s: &'a str, c: char) -> (r: Vec<&'a str>)
    ensures r@.len() == split_on(s@, c).len(), forall|i: int| 0 <= i < r@.len() ==> (#[trigger] r@[i])@ == split_on(s@, c)[i]
{ unimplemented!() }
// R37: str::parse::<u8> accepts (at least) every string of decimal digits whose value fits
#[verifier::external_body]
pub fn str_parse_u8(s: &str) -> (r: Result<u8, core::num::ParseIntError>)
    ensures dec_val(s@) is Some && dec_val(s@)->0 < 256 ==> r is Ok && r->Ok_0 as nat == dec_val(s@)->0
{ unimplemented!() }

// what set_code needs of its argument (otherwise it panics by its own assertions / unwrap)
pub open spec fn code_text_ok(t: Seq<char>) -> bool {
    let p = split_on(t, '.');
    p.len() == 2 && dec_val(p[0]) is Some && dec_val(p[0])->0 < 8 && dec_val(p[1]) is Some && dec_val(p[1])->0 < 32
}
pub open spec fn code_text_byte(t: Seq<char>) -> u8 { let p = split_on(t, '.'); (dec_val(p[0])->0 * 32 + dec_val(p[1])->0) as u8 }

proof fn lemma_digit(n: int) requires 0 <= n <= 9 ensures digit_val(digit(n)) == Some(n), digit(n) != '.' {}
// C05: for every code byte the printed text is c '.' d d and parses back to the same byte
proof fn theorem_dotted_roundtrip(b: u8)
    ensures dotted(b).len() == 4, code_text_ok(dotted(b)), code_text_byte(dotted(b)) == b
{
    let c = (b / 32) as int; let d = (b % 32) as int;
    lemma_digit(c); lemma_digit(d / 10); lemma_digit(d % 10);
    assert(dec(c as nat) =~= seq![digit(c)]);
    assert(dec2(d as nat) =~= seq![digit(d / 10), digit(d % 10)]) by {
        if d >= 10 { assert(dec((d / 10) as nat) =~= seq![digit(d / 10)]); assert(dec(d as nat) =~= dec((d / 10) as nat).push(digit(d % 10))); }
    }
    let t = dotted(b);
    assert(t =~= seq![digit(c), '.', digit(d / 10), digit(d % 10)]);
    let t1 = t.drop_last(); let t2 = t1.drop_last(); let t3 = t2.drop_last();
    assert(t1 =~= seq![digit(c), '.', digit(d / 10)]);
    assert(t2 =~= seq![digit(c), '.']);
    assert(t3 =~= seq![digit(c)]);
    assert(t3.drop_last() =~= Seq::<char>::empty());
    assert(split_on(t3.drop_last(), '.') =~= seq![Seq::<char>::empty()]);
    assert(split_on(t3, '.') =~= seq![seq![digit(c)]]);
    assert(split_on(t2, '.') =~= seq![seq![digit(c)], Seq::<char>::empty()]);
    assert(split_on(t1, '.') =~= seq![seq![digit(c)], seq![digit(d / 10)]]);
    let r1 = split_on(t1, '.');
    assert(r1.drop_last() =~= seq![seq![digit(c)]]);
    assert(r1.last() =~= seq![digit(d / 10)]);
    assert(r1.last().push(digit(d % 10)) =~= seq![digit(d / 10), digit(d % 10)]);
    assert(t.last() == digit(d % 10));
    assert(split_on(t, '.') == r1.drop_last().push(r1.last().push(t.last())));
    assert(split_on(t, '.') =~= seq![seq![digit(c)], seq![digit(d / 10), digit(d % 10)]]);
    let p1 = seq![digit(d / 10), digit(d % 10)];
    assert(p1.drop_last() =~= seq![digit(d / 10)]);
    assert(dec_val(seq![digit(c)]) == Some(c as nat));
    assert(dec_val(p1.drop_last()) == Some((d / 10) as nat));
    assert(dec_val(p1) == Some(d as nat));
    assert(c * 32 + d == b);
}
'''


def build(repo):
    R = common.registry
    u = Unit(NAME, repo)
    u.prelude('wire.rs')
    u.raw(R.class_spec(), 'spec/registry.py')
    u.raw('use core::fmt;\n' + SPEC, 'units/dot.py')
    u.items('header.rs', 'pub enum MessageClass', 'impl From<u8> for MessageClass', 'impl From<MessageClass> for u8', 'impl fmt::Display for MessageClass',
            'pub enum RequestType', 'pub enum ResponseType', 'pub struct Header')
    u.impl_fns('header.rs', 'impl Header', ['set_code', 'get_code'])
    u.assemble()
    common.common_rules(u, linked_list=(0, 0))
    DF = ('impl fmt::Display for MessageClass', 'fmt')
    SC = ('impl Header', 'set_code')
    GC = ('impl Header', 'get_code')
    u.replace_in(DF, 'R15:write!-dotted', r'write!\(f, "\{\}\.\{:02\}", (\w+), (\w+)\)', r'fmt_write_dotted(f, \1, \2)')
    u.replace_in(SC, 'R32:str-split', r"code\.split\('\.'\)\.collect\(\)", "str_split_char(code, '.')")
    u.replace_in(SC, 'R2:assert_eq', r'assert_eq!\(([^;]*?), ([^;,]*?)\);', r'assert(\1 == \2);', (1, 5))
    u.replace_in(SC, 'R37:parse-u8', r'(\w+\[\d+\])\.parse::<u8>\(\)', r'str_parse_u8(\1)', 2)
    u.replace_in(GC, 'R15:to_string', r'self\.code\.to_string\(\)', 'class_to_string(&self.code)')
    u.contract(DF, '''        ensures r is Ok ==> fmt_out(*final(f)) == fmt_out(*old(f)) + dotted(u8_of_class(*self))''', props=PROPS)
    u.after(DF, r'let (?:class_code|detail_code) = [^;]*;', '''        proof {
            assert((0xE0u8 & code) >> 5 == code / 32) by (bit_vector);
            assert(0x1Fu8 & code == code % 32) by (bit_vector);
        }''', nth=1, count=2)
    u.contract(SC, '''        requires code_text_ok(code@)
        ensures final(self).code == class_of_u8(code_text_byte(code@)), final(self).ver_type_tkl == old(self).ver_type_tkl, final(self).message_id == old(self).message_id''', props=PROPS)
    u.before(SC, r'self\.code =', '''        proof {
            assert(class_code < 8 && detail_code < 32 ==> 0xF8u8 & class_code == 0 && 0xE0u8 & detail_code == 0 && (class_code << 5 | detail_code) == class_code * 32 + detail_code) by (bit_vector);
        }''')
    # after both values are parsed (whatever their order), before the runtime assertions (whatever their order): one fact per
    # assertion found in the code, about ITS expression - an assertion that could fire on a well-formed text fails its fact,
    # one that is merely weaker or written differently does not
    _s, _p, _bo, _bc = u._fn_span(SC)
    _asserts = re.findall(r'assert\(((?:[^();]|\([^()]*\))*?) == 0\);', u.text[_bo:_bc])
    _facts = ' '.join('assert(class_code < 8 && detail_code < 32 ==> (%s) == 0) by (bit_vector);' % a for a in _asserts)
    u.after(SC, r'let (?:class_code|detail_code) = [^;]*;', '        proof { %s }' % _facts, nth=1, count=2)
    u.contract(GC, '        ensures r@ == dotted(u8_of_class(self.code))', props=PROPS)
    u.probe('theorem_dotted_roundtrip')
    u.finish(common.HEAD)
    return u
