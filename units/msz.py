"""Unit `msz`: the message-size side of C10.  compute_message_size_hack is read verbatim against the
encoder contract (enc_post of unit enc): it returns the exact encoded size without payload plus the
payload length and leaves the packet as it was.  Lemma: adding one Block option (value <= 3 bytes)
grows the encoded options by at most 5 bytes, so a fragmented reply of block size s encodes within
overhead + 12 + s (the handler's BLOCK_OPTIONS_MAX_LENGTH reserve)."""
from vf.unit import Unit
from . import common, rt

NAME = 'msz'
PROPS = ['C10']
RLIMIT = 60

BH = 'impl<Endpoint: Ord + Clone> BlockHandler<Endpoint>'

SPEC = r'''
use core::mem;
pub struct HandlingError { pub code: Option<ResponseType>, pub message: String }
impl HandlingError {
    #[verifier::external_body] pub fn internal_msg(e: MessageError) -> (r: Self) ensures r.code == Some(ResponseType::InternalServerError) { unimplemented!() }
}
pub assume_specification<T: Default> [core::mem::take] (x: &mut T) -> (r: T)
    ensures r == *old(x), call_ensures(T::default, (), *final(x));
pub struct BlockHandler<Endpoint: Ord + Clone> { pub e: Option<Endpoint> }
impl Packet {
    // contract proved on the real function in unit enc (to_bytes_unlimited == to_bytes_internal(None))
    #[verifier::external_body]
    pub fn to_bytes_unlimited(&self) -> (r: Result<Vec<u8>, MessageError>)
        requires enc_pre(*self)
        ensures enc_post(*self, None, r),
            r is Ok ==> r->Ok_0@.len() <= isize::MAX      // Rust allocation invariant
    { unimplemented!() }
}
// encoded size of everything but the payload (what the handler calls the message overhead)
pub open spec fn overhead_of(p: Packet) -> nat {
    wire_msg(p.header.ver_type_tkl, u8_of_class(p.header.code), p.header.message_id, p.token@, pkt_opts(p), Seq::<u8>::empty()).len()
}

// ---------------------------------------------------------------- growth of the option section
proof fn lemma_wire_opts_app(a: Seq<Opt>, b: Seq<Opt>, prev: int)
    ensures wire_opts(a + b, prev) == wire_opts(a, prev) + wire_opts(b, prevnum(a, prev))
    decreases a.len()
{
    if a.len() == 0 {
        assert(a + b =~= b);
        assert(wire_opts(a, prev) =~= Seq::<u8>::empty());
    } else {
        let t = a.drop_first();
        lemma_wire_opts_app(t, b, a[0].0 as int);
        assert((a + b).drop_first() =~= t + b);
        assert((a + b)[0] == a[0]);
        assert(prevnum(t, a[0].0 as int) == prevnum(a, prev)) by { if t.len() > 0 { assert(t.last() == a.last()); } }
        assert(wire_opts(a + b, prev) =~= wire_opts(a, prev) + wire_opts(b, prevnum(a, prev)));
    }
}
proof fn lemma_ext_len_mono(x: int, y: int)
    requires 0 <= x <= y
    ensures ext_bytes(x).len() <= ext_bytes(y).len(), ext_bytes(x).len() <= 2
{}
// lowering the previous option number of a sequence only changes (lengthens) its first delta
proof fn lemma_wire_opts_prev_mono(b: Seq<Opt>, p1: int, p2: int)
    requires p1 <= p2, b.len() > 0 ==> p2 <= b[0].0
    ensures wire_opts(b, p2).len() <= wire_opts(b, p1).len()
{
    if b.len() > 0 {
        lemma_ext_len_mono(b[0].0 - p2, b[0].0 - p1);
        let l = b[0].1.len() as int;
        assert(opt_hdr(b[0].0 - p2, l).len() <= opt_hdr(b[0].0 - p1, l).len());
    }
}
// flat_map splits at any option number
pub open spec fn flat_from(m: Map<u16, Seq<Seq<u8>>>, lo: int, hi: int) -> Seq<Opt>
    decreases hi - lo
{ if hi <= lo { Seq::empty() } else { flat_from(m, lo, hi - 1) + (if m.contains_key((hi - 1) as u16) { tagged((hi - 1) as u16, m[(hi - 1) as u16]) } else { Seq::empty() }) } }
proof fn lemma_flat_split(m: Map<u16, Seq<Seq<u8>>>, lo: int, hi: int)
    requires 0 <= lo <= hi <= 65536
    ensures flat_map(m, hi) == flat_map(m, lo) + flat_from(m, lo, hi)
    decreases hi - lo
{
    if hi > lo {
        lemma_flat_split(m, lo, hi - 1);
        let x = if m.contains_key((hi - 1) as u16) { tagged((hi - 1) as u16, m[(hi - 1) as u16]) } else { Seq::<Opt>::empty() };
        assert(flat_map(m, hi) == flat_map(m, hi - 1) + x);
        assert(flat_map(m, lo) + flat_from(m, lo, hi - 1) + x =~= flat_map(m, lo) + (flat_from(m, lo, hi - 1) + x));
    } else {
        assert(flat_map(m, lo) + flat_from(m, lo, hi) =~= flat_map(m, lo));
    }
}
proof fn lemma_flat_from_frame(m: Map<u16, Seq<Seq<u8>>>, m2: Map<u16, Seq<Seq<u8>>>, lo: int, hi: int)
    requires 0 <= lo <= hi <= 65536, forall|k: u16| lo <= k < hi ==> (#[trigger] m.contains_key(k) == m2.contains_key(k)) && (m.contains_key(k) ==> m[k] == m2[k])
    ensures flat_from(m, lo, hi) == flat_from(m2, lo, hi)
    decreases hi - lo
{ if hi > lo { lemma_flat_from_frame(m, m2, lo, hi - 1); } }
proof fn lemma_flat_from_first(m: Map<u16, Seq<Seq<u8>>>, lo: int, hi: int)
    requires 0 <= lo <= hi <= 65536
    ensures flat_from(m, lo, hi).len() > 0 ==> flat_from(m, lo, hi)[0].0 >= lo
    decreases hi - lo
{
    if hi > lo {
        lemma_flat_from_first(m, lo, hi - 1);
        let pre = flat_from(m, lo, hi - 1);
        if pre.len() == 0 && m.contains_key((hi - 1) as u16) && m[(hi - 1) as u16].len() > 0 {
            assert(flat_from(m, lo, hi)[0] == tagged((hi - 1) as u16, m[(hi - 1) as u16])[0]);
        } else if pre.len() > 0 {
            assert(flat_from(m, lo, hi)[0] == pre[0]);
        }
    }
}
// C10: inserting a single value of at most 3 bytes for an option number n <= 268 that the message does not carry
// lengthens the encoded option section by at most 5 bytes
proof fn lemma_insert_option_growth(m: Map<u16, Seq<Seq<u8>>>, n: u16, v: Seq<u8>)
    requires !m.contains_key(n), v.len() <= 3, n <= 268
    ensures wire_opts_r(flat_map(m.insert(n, seq![v]), 65536)).len() <= wire_opts_r(flat_map(m, 65536)).len() + 5
{
    let m2 = m.insert(n, seq![v]);
    let a = flat_map(m, n as int);
    let r = flat_from(m, n + 1, 65536);
    lemma_flat_split(m, n as int, 65536); lemma_flat_split(m2, n as int, 65536);
    lemma_flat_split(m, n + 1, 65536); lemma_flat_split(m2, n + 1, 65536);
    lemma_flat_map_frame(m, m2, n as int);
    lemma_flat_from_frame(m, m2, n + 1, 65536);
    assert(flat_map(m, n + 1) =~= a);
    assert(tagged(n, seq![v]) =~= seq![(n, v)]);
    assert(flat_map(m2, n + 1) =~= a + seq![(n, v)]);
    let s1 = a + r; let s2 = a + seq![(n, v)] + r;
    assert(flat_map(m, 65536) == s1);
    assert(flat_map(m2, 65536) == s2);
    lemma_wire_r_eq(s1); lemma_wire_r_eq(s2);
    lemma_wire_opts_app(a, r, 0);
    lemma_wire_opts_app(a + seq![(n, v)], r, 0);
    lemma_wire_opts_app(a, seq![(n, v)], 0);
    let pa = prevnum(a, 0);
    lemma_flat_prev(m, n as int);
    assert(pa == prev_num(a));
    assert(pa <= n);
    assert(prevnum(a + seq![(n, v)], 0) == n) by { assert((a + seq![(n, v)]).last() == (n, v)); }
    lemma_flat_from_first(m, n + 1, 65536);
    lemma_wire_opts_prev_mono(r, pa, n as int);
    // the inserted option itself: 1 header byte + at most one delta extension byte + the value
    let one = seq![(n, v)];
    assert(one.drop_first() =~= Seq::<Opt>::empty());
    assert(wire_opts(one.drop_first(), n as int) =~= Seq::<u8>::empty());
    assert(one[0] == (n, v));
    assert(wire_opts(one, pa) =~= opt_hdr(n - pa, v.len() as int) + v);
    assert(opt_hdr(n - pa, v.len() as int).len() <= 2);
}
// C10: a reply carrying one more Block option and a block of at most `size` payload bytes encodes within overhead + 12 + size
proof fn theorem_c10_fragment_fits(vtt: u8, code: u8, mid: u16, token: Seq<u8>, m: Map<u16, Seq<Seq<u8>>>, n: u16, v: Seq<u8>, chunk: Seq<u8>, size: int)
    requires !m.contains_key(n), v.len() <= 3, n <= 268, chunk.len() <= size
    ensures wire_msg(vtt, code, mid, token, flat_map(m.insert(n, seq![v]), 65536), chunk).len()
                <= wire_msg(vtt, code, mid, token, flat_map(m, 65536), Seq::<u8>::empty()).len() + 12 + size
{
    lemma_insert_option_growth(m, n, v);
}
'''


def build(repo):
    u = Unit(NAME, repo)
    u.prelude('std_stubs.rs', 'views.rs', 'wire.rs', 'encwire.rs')
    u.raw(common.registry.class_spec(), 'spec/registry.py:class_spec')
    u.prelude('pktview.rs', 'roundtrip.rs')
    u.raw(rt.THEOREMS, 'units/rt.py')
    u.raw(common.HEADERRAW_TRYFROM_SPEC + SPEC, 'units/msz.py')
    common.header_items(u, fns=['new', 'from_raw', 'to_raw'])
    common.packet_struct(u)
    u.impl_fns('block_handler/mod.rs', BH, ['compute_message_size_hack'])
    u.assemble()
    common.common_rules(u)
    u.rule('R5:from_be_bytes', r'u16::from_be_bytes\(id_bytes\)', 'u16_from_be_bytes(id_bytes)', 1)
    u.rule('R9:internal-fn-item', r'\.map_err\(HandlingError::internal\)\?', '.map_err(HandlingError::internal_msg)?', 1)
    CM = (BH, 'compute_message_size_hack')
    u.contract(CM, '''        requires old(packet).token@.len() <= 0x1000_0000, old(packet).payload@.len() <= 0x1000_0000, code_canonical(old(packet).header.code)
        ensures
            // the packet is as it was (the payload is moved out and back)
            final(packet).header == old(packet).header, final(packet).token == old(packet).token, final(packet).options == old(packet).options,
            final(packet).payload@ == old(packet).payload@,
            r is Err ==> r->Err_0.code is Some,
            // C10: overhead + payload length, where the overhead is the exact encoded size without payload
            r is Ok ==> r->Ok_0 == overhead_of(*old(packet)) + old(packet).payload@.len(),
            // it succeeds whenever every option value is encodable
            map_encodable(opts_view(old(packet).options)) ==> r is Ok''', props=PROPS)
    u.closure(CM, r'\|bytes\|', 'bytes: Vec<u8>', 'n: usize', 'ensures n == bytes@.len()')
    for fn in ['lemma_insert_option_growth', 'theorem_c10_fragment_fits']:
        u.probe(fn)
        u.props(fn, PROPS)
    u.finish(common.HEAD)
    return u
