"""Unit `path`: CoapRequest::set_path / get_path (C19: the URI-path convenience accessors read and
write the Uri-Path options of the raw API), on top of the accessor layer of unit `acc`.

The loops and the option calls of the two functions are verified verbatim; the std string
functions they call (`str::split(char)`, `Enumerate`, `str::is_empty`, `str::as_bytes`,
`core::str::from_utf8`, `[&str]::join`, `str::to_string`) are outside Verus' dialect and are read
through wrappers with assumed contracts over spec functions `split_on` / `join_with` defined here
(listed in the trusted base)."""
import re

from vf.unit import Unit
from . import common, acc

NAME = 'path'
PROPS = ['C19']
RLIMIT = 30

SPEC = r'''
pub use ResponseType as Status;
pub use RequestType as Method;
// ---- text <-> bytes (std, UTF-8): assumed to be a bijection between text and valid byte strings
pub uninterp spec fn utf8_bytes(s: Seq<char>) -> Seq<u8>;
pub uninterp spec fn utf8_text(b: Seq<u8>) -> Option<Seq<char>>;
pub broadcast axiom fn axiom_utf8_roundtrip(s: Seq<char>)
    ensures #[trigger] utf8_text(utf8_bytes(s)) == Some(s);

// ---- str::split(c): the pieces between occurrences of c (always at least one piece)
pub open spec fn split_on(s: Seq<char>, c: char) -> Seq<Seq<char>>
    decreases s.len()
{
    if s.len() == 0 { seq![Seq::<char>::empty()] }
    else {
        let rest = split_on(s.drop_last(), c);
        if s.last() == c { rest.push(Seq::<char>::empty()) }
        else { rest.drop_last().push(rest.last().push(s.last())) }
    }
}
// ---- [&str]::join(sep)
pub open spec fn join_with(v: Seq<Seq<char>>, c: char) -> Seq<char>
    decreases v.len()
{
    if v.len() == 0 { Seq::<char>::empty() }
    else if v.len() == 1 { v[0] }
    else { join_with(v.drop_last(), c).push(c) + v.last() }
}
proof fn lemma_split_nonempty(s: Seq<char>, c: char)
    ensures split_on(s, c).len() >= 1
    decreases s.len()
{ if s.len() > 0 { lemma_split_nonempty(s.drop_last(), c); } }
// joining the pieces gives the text back
proof fn lemma_join_split(s: Seq<char>, c: char)
    ensures join_with(split_on(s, c), c) == s
    decreases s.len()
{
    if s.len() == 0 {
        assert(join_with(seq![Seq::<char>::empty()], c) == Seq::<char>::empty());
    } else {
        let r = split_on(s.drop_last(), c);
        lemma_split_nonempty(s.drop_last(), c);
        lemma_join_split(s.drop_last(), c);
        if s.last() == c {
            let v = r.push(Seq::<char>::empty());
            assert(v.drop_last() == r);
            assert(join_with(v, c) == join_with(r, c).push(c) + Seq::<char>::empty());
            assert(join_with(r, c).push(c) + Seq::<char>::empty() =~= s.drop_last().push(c));
            assert(s.drop_last().push(s.last()) =~= s);
        } else {
            let v = r.drop_last().push(r.last().push(s.last()));
            if r.len() == 1 {
                assert(v.len() == 1);
                assert(join_with(v, c) == r[0].push(s.last()));
                assert(join_with(r, c) == r[0]);
            } else {
                assert(v.drop_last() =~= r.drop_last());
                assert(join_with(v, c) == join_with(r.drop_last(), c).push(c) + r.last().push(s.last()));
                assert(join_with(r, c) == join_with(r.drop_last(), c).push(c) + r.last());
                assert(join_with(r.drop_last(), c).push(c) + r.last().push(s.last()) =~= (join_with(r.drop_last(), c).push(c) + r.last()).push(s.last()));
            }
            assert(s.drop_last().push(s.last()) =~= s);
        }
    }
}
// C19: the Uri-Path segments set_path stores for a path string: the pieces between '/', minus the
// empty piece before a leading '/'
pub open spec fn path_pieces(s: Seq<char>) -> Seq<Seq<char>> {
    let p = split_on(s, '/'); if p[0].len() == 0 { p.skip(1) } else { p }
}
pub open spec fn bytes_of_pieces(p: Seq<Seq<char>>) -> Seq<Seq<u8>> { Seq::new(p.len(), |i: int| utf8_bytes(p[i])) }
// what get_path shows for a list of raw Uri-Path values: the valid ones, joined by '/'
pub open spec fn texts_of(v: Seq<Seq<u8>>) -> Seq<Seq<char>>
    decreases v.len()
{
    if v.len() == 0 { Seq::empty() }
    else if utf8_text(v.last()) is Some { texts_of(v.drop_last()).push(utf8_text(v.last())->0) }
    else { texts_of(v.drop_last()) }
}
// every value is text (what set_path stores; C19 speaks about path strings, so what get_path makes of other values is left open)
pub open spec fn all_text(v: Seq<Seq<u8>>) -> bool { forall|k: int| 0 <= k < v.len() ==> utf8_text(#[trigger] v[k]) is Some }
proof fn lemma_texts_of_bytes(p: Seq<Seq<char>>)
    ensures texts_of(bytes_of_pieces(p)) == p, all_text(bytes_of_pieces(p))
    decreases p.len()
{
    broadcast use axiom_utf8_roundtrip;
    if p.len() > 0 {
        lemma_texts_of_bytes(p.drop_last());
        assert(bytes_of_pieces(p).drop_last() =~= bytes_of_pieces(p.drop_last()));
        assert(texts_of(bytes_of_pieces(p)) =~= p);
    } else {
        assert(texts_of(bytes_of_pieces(p)) =~= p);
    }
}
// loop state of set_path: the pieces among the first n that have been stored
pub open spec fn kept(p: Seq<Seq<char>>, n: int) -> Seq<Seq<char>> { if n == 0 { Seq::empty() } else if p[0].len() == 0 { p.subrange(1, n) } else { p.subrange(0, n) } }
pub open spec fn path_view(cleared: Map<u16, Seq<Seq<u8>>>, k: Seq<Seq<char>>) -> Map<u16, Seq<Seq<u8>>> { if k.len() == 0 { cleared } else { cleared.insert(11, bytes_of_pieces(k)) } }
proof fn lemma_kept_step(cleared: Map<u16, Seq<Seq<u8>>>, p: Seq<Seq<char>>, n: int)
    requires 0 <= n < p.len(), cleared.contains_key(11) ==> cleared[11].len() == 0, !(n == 0 && p[0].len() == 0)
    ensures push_opt(path_view(cleared, kept(p, n)), 11, utf8_bytes(p[n])) == path_view(cleared, kept(p, n + 1))
{
    let k0 = kept(p, n); let k1 = kept(p, n + 1);
    assert(k1 =~= k0.push(p[n]));
    assert(bytes_of_pieces(k1) =~= bytes_of_pieces(k0).push(utf8_bytes(p[n])));
    if k0.len() == 0 {
        assert(bytes_of_pieces(k0) =~= Seq::<Seq<u8>>::empty());
        if cleared.contains_key(11) { assert(cleared[11] =~= Seq::<Seq<u8>>::empty()); }
        assert(push_opt(cleared, 11, utf8_bytes(p[n])) =~= cleared.insert(11, bytes_of_pieces(k1)));
    } else {
        assert(push_opt(cleared.insert(11, bytes_of_pieces(k0)), 11, utf8_bytes(p[n])) =~= cleared.insert(11, bytes_of_pieces(k1)));
    }
}
// C19 (path strings): what get_path returns after set_path(s) is s without one leading '/'
pub open spec fn strip_leading_slash(s: Seq<char>) -> Seq<char> { if s.len() > 0 && s[0] == '/' { s.skip(1) } else { s } }

proof fn lemma_join_front(v: Seq<Seq<char>>, c: char)
    requires v.len() >= 2
    ensures join_with(v, c) == v[0].push(c) + join_with(v.skip(1), c)
    decreases v.len()
{
    if v.len() == 2 {
        assert(v.drop_last() =~= seq![v[0]]);
        assert(v.skip(1) =~= seq![v[1]]);
        assert(join_with(v.drop_last(), c) == v[0]);
        assert(join_with(v.skip(1), c) == v[1]);
    } else {
        lemma_join_front(v.drop_last(), c);
        assert(v.drop_last().skip(1) =~= v.skip(1).drop_last());
        assert(v.skip(1).last() == v.last());
        assert(join_with(v.skip(1), c) == join_with(v.skip(1).drop_last(), c).push(c) + v.last());
        assert(join_with(v, c) =~= v[0].push(c) + join_with(v.skip(1), c));
    }
}
// the first piece is empty exactly for the empty string and for a leading separator, and a
// leading separator yields at least two pieces
proof fn lemma_first_piece(s: Seq<char>, c: char)
    ensures
        split_on(s, c).len() >= 1,
        (split_on(s, c)[0].len() == 0) <==> (s.len() == 0 || s[0] == c),
        s.len() > 0 && s[0] == c ==> split_on(s, c).len() >= 2,
    decreases s.len()
{
    if s.len() > 0 {
        lemma_first_piece(s.drop_last(), c);
        let r = split_on(s.drop_last(), c);
        if s.len() > 1 { assert(s.drop_last()[0] == s[0]); }
    }
}
// C19: reading the path back after set_path(s) gives s without one leading '/'
proof fn lemma_path_roundtrip(s: Seq<char>)
    ensures join_with(path_pieces(s), '/') == strip_leading_slash(s)
{
    let p = split_on(s, '/');
    lemma_first_piece(s, '/');
    lemma_join_split(s, '/');
    if p[0].len() == 0 {
        if s.len() == 0 {
            assert(p.len() == 1);
            assert(p.skip(1) =~= Seq::<Seq<char>>::empty());
        } else {
            lemma_join_front(p, '/');
            assert(p[0] =~= Seq::<char>::empty());
            assert((p[0].push('/') + join_with(p.skip(1), '/')).skip(1) =~= join_with(p.skip(1), '/'));
        }
    }
}
proof fn theorem_get_path_after_set_path(s: Seq<char>, after: Map<u16, Seq<Seq<u8>>>)
    requires
        // postcondition of set_path(s)
        after.contains_key(11) || path_pieces(s).len() == 0,
        after.contains_key(11) ==> after[11] == bytes_of_pieces(path_pieces(s)),
    ensures
        // what get_path then returns (its postcondition)
        all_text(if after.contains_key(11) { after[11] } else { Seq::empty() }),
        join_with(texts_of(if after.contains_key(11) { after[11] } else { Seq::empty() }), '/') == strip_leading_slash(s)
{
    lemma_path_roundtrip(s);
    lemma_texts_of_bytes(path_pieces(s));
    if !after.contains_key(11) {
        assert(path_pieces(s) =~= Seq::<Seq<char>>::empty());
    }
}

// ---- wrappers for the std string functions (assumed contracts)
#[verifier::external_type_specification]
#[verifier::external_body]
pub struct ExUtf8Error(core::str::Utf8Error);
#[verifier::external_body]
pub fn str_split_char<'a>(s: &'a str, c: char) -> (r: Vec<&'a str>)
    ensures r@.len() == split_on(s@, c).len(), forall|i: int| 0 <= i < r@.len() ==> (#[trigger] r@[i])@ == split_on(s@, c)[i]
{ unimplemented!() }
#[verifier::external_body]
pub fn str_is_empty(s: &str) -> (r: bool) ensures r == (s@.len() == 0) { unimplemented!() }
#[verifier::external_body]
pub fn str_bytes_to_vec(s: &str) -> (r: Vec<u8>) ensures r@ == utf8_bytes(s@) { unimplemented!() }
#[verifier::external_body]
pub fn str_from_utf8<'a>(v: &'a Vec<u8>) -> (r: Result<&'a str, core::str::Utf8Error>)
    ensures r is Ok <==> utf8_text(v@) is Some, r is Ok ==> r->Ok_0@ == utf8_text(v@)->0
{ unimplemented!() }
pub open spec fn strs_view(v: Seq<&str>) -> Seq<Seq<char>> { Seq::new(v.len(), |i: int| v[i]@) }
#[verifier::external_body]
pub fn strs_join(v: &Vec<&str>, sep: char) -> (r: String) ensures r@ == join_with(strs_view(v@), sep) { unimplemented!() }
#[verifier::external_body]
pub fn empty_string() -> (r: String) ensures r@ == Seq::<char>::empty() { unimplemented!() }
'''


def extra_items(u):
    u.item('response.rs', 'pub struct CoapResponse')
    u.item('request.rs', 'pub struct CoapRequest<Endpoint>')
    u.impl_fns('request.rs', 'impl<Endpoint> CoapRequest<Endpoint>', ['set_path', 'get_path'])


def build(repo):
    u = Unit(NAME, repo)
    acc.populate(u, extra_items=extra_items, extra_spec=SPEC)
    u.rule('derive-drop:Debug/Clone on CoapRequest', r'#\[derive\(Clone, Debug, PartialEq\)\]\s*pub struct (CoapRequest<Endpoint>|CoapResponse)', r'pub struct \1', 2)
    RQ = 'impl<Endpoint> CoapRequest<Endpoint>'
    SP = (RQ, 'set_path')
    GP = (RQ, 'get_path')
    # R32: std string functions read through the wrappers above
    u.replace_in(SP, 'R32:str-split', r"path\.split\('/'\)", "str_split_char(path, '/')")
    u.replace_in(SP, 'R32:enumerate-as-index', r'for \(i, s\) in ((?:[^{}()]|\((?:[^()]|\([^()]*\))*\))+?)\s*\.enumerate\(\) \{',
                 r'let segs_v = \1; let mut i_next: usize = 0; while i_next < segs_v.len() { let i = i_next; let s = segs_v[i]; i_next = i_next + 1;')
    u.replace_in(SP, 'R32:str-is_empty', r's\.is_empty\(\)', 'str_is_empty(s)')
    u.replace_in(SP, 'R32:str-as_bytes-to_vec', r's\.as_bytes\(\)\.to_vec\(\)', 'str_bytes_to_vec(s)')
    u.replace_in(GP, 'R32:from_utf8', r'core::str::from_utf8\(option\)', 'str_from_utf8(option)')
    _gm = re.search(r'let mut (\w+) = Vec::new\(\);', u.text[u._fn_span(GP)[2]:u._fn_span(GP)[3]])
    VEC = _gm.group(1) if _gm else 'vec'
    u.replace_in(GP, 'R32:join', VEC + r'\.join\("/"\)', "strs_join(&%s, '/')" % VEC)
    u.replace_in(GP, 'R32:empty-string', r'""\.to_string\(\)', 'empty_string()')
    u.before(SP, r'let segs_v =', '''        let ghost cleared = opts_view(self.message.options);
        let ghost pieces = split_on(path@, '/');
        proof { lemma_split_nonempty(path@, '/'); }
        ''')
    u.loop(SP, 0, '''            invariant
                i_next <= segs_v@.len(), segs_v@.len() == pieces.len(), pieces.len() >= 1,
                forall|j: int| 0 <= j < segs_v@.len() ==> (#[trigger] segs_v@[j])@ == pieces[j],
                cleared.contains_key(11) ==> cleared[11].len() == 0,
                opts_view(self.message.options) == path_view(cleared, kept(pieces, i_next as int)),
                same_but_options(self.message, old(self).message), self.response == old(self).response, self.source == old(self).source,
            decreases segs_v@.len() - i_next''')
    if re.search(r'(?<![A-Za-z0-9_])continue\s*;', u.text[u._fn_span(SP)[2]:u._fn_span(SP)[3]]):
        u.before(SP, r'continue;', '''                proof { assert(kept(pieces, 1) =~= kept(pieces, 0)); }''')
    u.at_block_end(SP, r'while i_next < segs_v\.len\(\)', '''            proof {
                if i == 0 && s@.len() == 0 { assert(kept(pieces, 1) =~= kept(pieces, 0)); } else { lemma_kept_step(cleared, pieces, i as int); }
            }''')
    u.body_end(SP, '''        proof {
            assert(kept(pieces, pieces.len() as int) =~= path_pieces(path@));
        }''')
    u.contract(SP, '''        ensures
            // the Uri-Path options are exactly the pieces of the string, in order, as UTF-8
            opts_view(final(self).message.options).contains_key(11) || path_pieces(path@).len() == 0,
            opts_view(final(self).message.options).contains_key(11) ==> opts_view(final(self).message.options)[11] == bytes_of_pieces(path_pieces(path@)),
            // every other option, and everything else in the message, is left alone
            forall|k: u16| k != 11 ==> opts_view(final(self).message.options).contains_key(k) == opts_view(old(self).message.options).contains_key(k)
                && (opts_view(old(self).message.options).contains_key(k) ==> opts_view(final(self).message.options)[k] == opts_view(old(self).message.options)[k]),
            same_but_options(final(self).message, old(self).message), final(self).response == old(self).response, final(self).source == old(self).source''', props=PROPS)
    V = lambda t: t.replace('VEC0_', VEC + '0').replace('VECNAME_', VEC)
    u.loop(GP, 0, V('''                    invariant
                        it.seq().len() == options@.len(),
                        forall|j: int| 0 <= j < it.seq().len() ==> *(#[trigger] it.seq()[j]) == options@[j],
                        all_text(vals_view(*options).take(it.index() as int)) ==> strs_view(VECNAME_@) == texts_of(vals_view(*options).take(it.index() as int)),'''), iter_name='it')
    u.loop_body_start(GP, 0, V('''                    let ghost j0 = it.index() as int;
                    let ghost VEC0_ = VECNAME_@;
                    proof { assert(*option == options@[j0]); }'''))
    u.at_block_end(GP, r'for option in', V('''                    proof {
                        let vv = vals_view(*options);
                        assert(vv[j0] == option@);
                        assert(vv.take(j0 + 1).drop_last() =~= vv.take(j0));
                        assert(vv.take(j0 + 1).last() == vv[j0]);
                        if all_text(vv.take(j0 + 1)) {
                            assert(utf8_text(vv.take(j0 + 1)[j0]) is Some);
                            assert(all_text(vv.take(j0))) by { assert forall|k: int| 0 <= k < j0 implies utf8_text(#[trigger] vv.take(j0)[k]) is Some by { assert(vv.take(j0)[k] == vv.take(j0 + 1)[k]); } }
                            assert(strs_view(VECNAME_@) =~= strs_view(VEC0_).push(utf8_text(option@)->0));
                        }
                    }'''))
    u.after(GP, V(r'let mut VECNAME_ = Vec::new\(\);'), V('''                proof { assert(strs_view(VECNAME_@) =~= Seq::<Seq<char>>::empty()); assert(vals_view(*options).take(0) =~= Seq::<Seq<u8>>::empty()); }'''))
    u.before(GP, V(r'strs_join\(&VECNAME_'), V('''                proof { let vv = vals_view(*options); assert(vv.take(vv.len() as int) =~= vv); }'''))
    u.contract(GP, '''        ensures
            // for Uri-Path values that are text (everything set_path can store): the values joined by '/'
            ({ let vals = if opts_view(self.message.options).contains_key(11) { opts_view(self.message.options)[11] } else { Seq::empty() };
               all_text(vals) ==> r@ == join_with(texts_of(vals), '/') })''', props=PROPS)
    for l in ['lemma_join_split', 'lemma_first_piece', 'lemma_path_roundtrip', 'theorem_get_path_after_set_path', 'lemma_texts_of_bytes', 'lemma_kept_step']:
        u.probe(l)
    u.finish(common.HEAD)
    return u
