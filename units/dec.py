"""Unit `dec`: Packet::from_bytes and the header helpers it uses, verified against the
RFC 7252 section 3 grammar of spec/wire.rs (C03; decoder half of C01/C02)."""
from vf.unit import Unit
from . import common

NAME = 'dec'
PROPS = ['C01', 'C02', 'C03']

FROM_BYTES = ('impl Packet', 'from_bytes')


def build(repo):
    u = Unit(NAME, repo)
    u.prelude('std_stubs.rs', 'views.rs', 'wire.rs', 'encwire.rs')
    u.raw(common.registry.class_spec(), 'spec/registry.py:class_spec')
    u.prelude('pktview.rs')
    u.raw(common.HEADERRAW_TRYFROM_SPEC + '''
// R4: options.entry(n).or_default().push_back(v)  (std entry API, trusted; view-level contract)
#[verifier::external_body]
fn options_push_back(options: &mut BTreeMap<u16, VecDeque<Vec<u8>>>, n: u16, v: Vec<u8>)
    ensures opts_view(*final(options)) == push_opt(opts_view(*old(options)), n, v@)
{ options.entry(n).or_default().push_back(v); }

''', 'units/dec.py')
    common.header_items(u)
    common.packet_struct(u)
    u.impl_fns('packet.rs', 'impl Packet', ['from_bytes'])
    u.assemble()

    common.common_rules(u)
    common.header_contracts(u, PROPS)
    u.rule('R3:be16_macro', r'u16::from_be\(\s*u8_to_unsigned_be!\(\s*buf,\s*idx,\s*idx \+ 1,\s*u16\s*\),?\s*\)', 'be16_at(buf, idx)', 2)
    u.rule('R4:entry-or_default-push_back',
           r'options\s*\.entry\(([^()]*)\)\s*\.or_default\(\)\s*\.push_back\(([^()]*)\);',
           r'options_push_back(&mut options, \1, \2);', 1)
    u.rule('R12:unreachable', r'_ => unreachable!\(\),', '_ => { unreachable!() }', 1)
    u.contract(('impl Header', 'set_token_length'), '        requires tkl < 16', props=['C01'])
    common.header_bit_hints(u, 'impl Header', fns=('set_token_length', 'get_type'))

    # ---- the decoder contract: taken from C03's statement -------------------------------------
    u.contract(FROM_BYTES, '''        requires buf.len() <= isize::MAX
        ensures
            // rejects everything the grammar rejects (short header, TKL 9-15, truncated token,
            // nibble 15, truncated extension or value, option number > 65535)
            parse_msg(buf@) is None ==> r is Err,
            // accepts every well-formed datagram, except that a stricter parser may refuse the
            // `lenient` ones (version != 1, empty payload after the marker, content in 0.00)
            parse_msg(buf@) is Some && !lenient(buf@) ==> r is Ok,
            // and returns exactly the fields the grammar defines
            r is Ok ==> parse_msg(buf@) is Some && pkt_matches(r->Ok_0, parse_msg(buf@)->0),
            // C01 needs the encoder's own messages parsed back whatever their version / code (a 0.00 message with a token or
            // options included); the encoder never ends a message with a bare payload marker and never writes a payload
            // into a 0.00 message, so those shapes stay optional
            parse_msg(buf@) is Some && enc_shape(buf@) ==> r is Ok, // @props C01
            dec_post(buf@, r), // @props C01''', props=PROPS)
    u.after(FROM_BYTES, r'let mut idx = options_start;',
            '                let ghost mut acc: Seq<(u16, Seq<u8>)> = Seq::empty();')
    u.after(FROM_BYTES, r'BTreeMap::new\(\);',
            '                proof { lemma_group_empty(); reveal(opts_view); assert(opts_view(options) =~= Map::<u16, Seq<Seq<u8>>>::empty()); }')
    u.loop(FROM_BYTES, 0, '''                    invariant
                        options_start <= idx <= buf.len(),
                        buf.len() <= isize::MAX,
                        buf@.len() >= 4,
                        options_start == 4 + (buf@[0] as int) % 16,
                        (buf@[0] as int) % 16 <= 8,
                        opts_view(options) == group(acc),
                        match parse_opts(buf@, idx as int, options_number as int) {
                            None => parse_opts(buf@, options_start as int, 0) is None,
                            Some((rest, pl)) => parse_opts(buf@, options_start as int, 0) == Some((acc + rest, pl)),
                        },
                        // the part from the payload marker on is the same seen from here (lets a stricter parser argue that a
                        // datagram it refuses is one of the shapes C03 leaves open)
                        tail_of(buf@, options_start as int) == tail_of(buf@, idx as int),
                    ensures idx >= buf.len() || buf@[idx as int] == 255u8,
                    decreases buf.len() - idx,''')
    u.before(FROM_BYTES, r'let byte = buf\[idx\];',
             '                    proof { lemma_nibbles(buf@[idx as int]); }')
    u.after(FROM_BYTES, r'options_push_back\(&mut options, ([^,]*), ([^;]*)\);', '''                    proof {
                        let item = (\\g<1>, buf@.subrange(idx as int, end as int));
                        lemma_group_push(acc, item.0, item.1);
                        let nxt = parse_opts(buf@, end as int, options_number as int);
                        if nxt is Some {
                            assert(acc + (seq![item] + nxt.unwrap().0) == acc.push(item) + nxt.unwrap().0);
                        }
                        acc = acc.push(item);
                    }''', expand=True)
    u.dropped = ['doc comments kept; #[cfg(test)] modules not extracted; only the listed items are extracted']
    u.finish(common.HEAD)
    return u
