"""Unit `unq`: the link-format value unquoter `Unquote` (C17, second sentence): the copy-on-write
form `to_cow` equals the character-by-character form produced by the iterator, for every
remaining input and every iterator state - unterminated quoted strings and text after the
closing quote included - and neither path panics; `next` terminates and is fused.

The two functions are verified verbatim.  `Chars::next` / `str::chars` carry vstd's own
specification (remaining characters).  Assumed (wrappers, R34): `Chars::as_str`,
`str::find(char)`, `str::starts_with(char)`, `str::len` and the two slicings `&s[a..]`, `&s[..b]`
over an axiomatic byte-offset model (boff: strictly increasing, 0 at 0, an ASCII first character
occupies one byte; slicing is defined - does not panic - exactly at character boundaries), `Cow`
construction, and `to_string()` = collecting the iterator (Display impl: try_for_each write_char)."""
from vf.unit import Unit
from . import common, strrules

NAME = 'unq'
PROPS = ['C17']
RLIMIT = 30

SPEC = r'''

pub uninterp spec fn cow_text<'a>(c: Cow<'a, str>) -> Seq<char>;
#[verifier::external_body]
pub fn cow_borrowed<'a>(s: &'a str) -> (r: Cow<'a, str>) ensures cow_text(r) == s@ { unimplemented!() }
#[verifier::external_body]
pub fn cow_owned<'a>(s: String) -> (r: Cow<'a, str>) ensures cow_text(r) == s@ { unimplemented!() }

// vstd's prophetic iterator laws are not claimed for Unquote; its own contract is on `next` below
impl<'a> vstd::std_specs::iter::IteratorSpecImpl for Unquote<'a> {
    open spec fn obeys_prophetic_iter_laws(&self) -> bool { false }
    open spec fn remaining(&self) -> Seq<char> { Seq::empty() }
    open spec fn decrease(&self) -> Option<nat> { None }
    open spec fn peek(&self, i: int) -> Option<char> { None }
    open spec fn will_return_none(&self) -> bool { false }
}
pub open spec fn unq(st: UnquoteState, s: Seq<char>) -> Seq<char> {
    match st {
        UnquoteState::NotStarted => if s.len() > 0 && s[0] == '"' { unq_quoted(s.skip(1)) } else { s },
        UnquoteState::NotQuoted => s,
        UnquoteState::Quoted => unq_quoted(s),
    }
}
// without escapes the quoted text is everything up to the closing quote (or the end)
proof fn lemma_unq_no_escape(s: Seq<char>)
    requires !s.contains('\\')
    ensures unq_quoted(s) == s.take(first_index(s, '"'))
    decreases s.len()
{
    lemma_first_index(s, '"');
    if s.len() == 0 {
        assert(s.take(0) =~= Seq::<char>::empty());
    } else if s[0] == '"' {
        assert(s.take(0) =~= Seq::<char>::empty());
    } else {
        assert(s[0] != '\\');
        assert forall|j: int| 0 <= j < s.skip(1).len() implies s.skip(1)[j] != '\\' by { assert(s.skip(1)[j] == s[j + 1]); }
        lemma_unq_no_escape(s.skip(1));
        lemma_first_index(s.skip(1), '"');
        let f = first_index(s.skip(1), '"');
        assert(s.take(1 + f) =~= seq![s[0]] + s.skip(1).take(f));
    }
}
// Display / to_string of an Unquote: collects what the iterator yields (assumed)
#[verifier::external_body]
pub fn unquote_to_string<'a>(u: &Unquote<'a>) -> (r: String) ensures r@ == unq(u.state, u.inner.remaining()) { unimplemented!() }
'''


def build(repo):
    u = Unit(NAME, repo)
    u.raw('use vstd::std_specs::iter::IteratorSpec;\nuse std::borrow::Cow;\nuse core::iter::FusedIterator;\n', 'units/unq.py')
    u.prelude('charclass.rs', 'strmodel.rs', 'unqspec.rs')
    u.raw(SPEC, 'units/unq.py')
    u.items('link_format.rs', 'const QUOTE_ESCAPE_CHAR', 'pub struct Unquote', 'enum UnquoteState')
    u.impl_fns('link_format.rs', "impl<'a> Unquote<'a>", ['new', 'to_cow', 'is_quoted'])
    u.item('link_format.rs', "impl Iterator for Unquote<'_>")
    u.assemble()
    u.rule('derive-drop:Unquote', r'#\[derive\(Clone, Debug\)\]\s*pub struct Unquote', 'pub struct Unquote', 1)
    u.rule('derive-drop:UnquoteState (derived PartialEq is structural: trusted)', r'#\[derive\(Copy, Clone, Debug, Eq, PartialEq\)\]\s*enum UnquoteState', '#[derive(Copy, Clone, PartialEq, Eq, Structural)]\npub enum UnquoteState', 1)
    u.pub_fields('Unquote')
    UQ = "impl<'a> Unquote<'a>"
    TC = (UQ, 'to_cow')
    IQ = (UQ, 'is_quoted')
    NX = ("impl Iterator for Unquote<'_>", 'next')
    # R34: std string functions through the wrappers
    u.replace_in(TC, 'R34:to_string', r'Cow::from\(self\.to_string\(\)\)', 'cow_owned(unquote_to_string(self))')
    strrules.apply(u, TC)
    u.replace_in(TC, 'R34:cow-borrowed', r'Cow::from\(', 'cow_borrowed(', (1, 9))
    strrules.apply(u, IQ)
    u.contract((UQ, 'new'), '        ensures r.state == UnquoteState::NotStarted, r.inner.remaining() == quoted_str@', props=PROPS)
    u.contract(IQ, '''        ensures
            self.state == UnquoteState::NotStarted ==> r == (self.inner.remaining().len() > 0 && self.inner.remaining()[0] == '"'),
            self.state == UnquoteState::NotQuoted ==> !r,
            self.state == UnquoteState::Quoted ==> r''', props=PROPS)
    u.contract(TC, '''        ensures
            // @clause cow-equals-iterator @props C17
            cow_text(r) == unq(self.state, self.inner.remaining())''', props=PROPS)
    # all hints are facts about the remaining text, stated up front (no anchors inside the body)
    u.body_start(TC, '''        broadcast use axiom_boff_zero; broadcast use axiom_boff_mono; broadcast use axiom_boff_ascii;''')
    u.after(TC, r'let str_ref = self\.inner\.as_str\(\);', '''        let ghost rest = str_ref@;
        proof {
            let tail = rest.skip(1);
            if rest.len() > 0 && rest[0] == '"' { assert(boff(rest, 1) == 1); lemma_off_unique(rest, 1); }
            lemma_first_index(rest, '"'); lemma_off_unique(rest, first_index(rest, '"')); lemma_off_unique(rest, rest.len() as int);
            lemma_last_index(rest, '"'); if last_index(rest, '"') >= 0 { lemma_off_unique(rest, last_index(rest, '"')); }
            if rest.len() > 0 {
                lemma_first_index(tail, '"'); lemma_off_unique(tail, first_index(tail, '"')); lemma_off_unique(tail, tail.len() as int);
                lemma_last_index(tail, '"'); if last_index(tail, '"') >= 0 { lemma_off_unique(tail, last_index(tail, '"')); }
            }
            if !rest.contains('\\\\') {
                lemma_unq_no_escape(rest);
                if rest.len() > 0 {
                    assert forall|j: int| 0 <= j < tail.len() implies tail[j] != '\\\\' by { assert(tail[j] == rest[j + 1]); }
                    lemma_unq_no_escape(tail);
                }
            }
        }''')
    u.contract(NX, '''        ensures ({
            let out = unq(old(self).state, old(self).inner.remaining());
            // @clause next-yields-unquoted-text @props C17 C16
            &&& r == (if out.len() == 0 { None::<char> } else { Some(out[0]) })
            &&& unq(final(self).state, final(self).inner.remaining()) == (if out.len() == 0 { out } else { out.skip(1) })
        })''', props=PROPS)
    u.loop(NX, 0, '''            invariant
                unq(self.state, self.inner.remaining()) == unq(old(self).state, old(self).inner.remaining()),
            decreases (if self.state == UnquoteState::NotStarted { 1int } else { 0int })''')
    u.before(NX, r'return match self\.state', '''            proof {
                reveal_strlit("");
                assert forall|s: Seq<char>| s.len() > 0 implies #[trigger] (seq![s[0]] + unq_quoted(s.skip(1))).skip(1) == unq_quoted(s.skip(1)) by {
                    assert((seq![s[0]] + unq_quoted(s.skip(1))).skip(1) =~= unq_quoted(s.skip(1)));
                }
                assert forall|s: Seq<char>| s.len() > 1 implies #[trigger] (seq![s[1]] + unq_quoted(s.skip(2))).skip(1) == unq_quoted(s.skip(2)) by {
                    assert((seq![s[1]] + unq_quoted(s.skip(2))).skip(1) =~= unq_quoted(s.skip(2)));
                }
                assert forall|s: Seq<char>| s.len() > 1 implies #[trigger] s.skip(1).skip(1) == s.skip(2) by {
                    assert(s.skip(1).skip(1) =~= s.skip(2));
                }
            }''')
    for l in ['lemma_first_index', 'lemma_unq_no_escape', 'lemma_last_index', 'lemma_off_unique']:
        u.probe(l)
    u.finish(common.HEAD)
    return u
