"""Unit `tables`: every number<->name conversion table of the crate, verified against registry
spec functions generated from spec/registry.py (an independent transcription of the IANA/RFC
registries), plus the 2-bit message-type field (C05)."""
import re

from vf.unit import Unit
from . import common

NAME = 'tables'
PROPS = ['C05']


def lemma_text():
    R = common.registry
    named_opts = ' && '.join('option_of_u16(u16_of_option(CoapOption::%s)) == CoapOption::%s' % (v, v) for _, v in R.OPTIONS)
    named_cf = ' && '.join('cf_of_usize(usize_of_cf(ContentFormat::%s)) == Ok::<ContentFormat, InvalidContentFormat>(ContentFormat::%s)' % (v, v) for _, v in R.CONTENT_FORMATS)
    named_req = ' && '.join('class_of_u8(u8_of_class(MessageClass::Request(RequestType::%s))) == MessageClass::Request(RequestType::%s)' % (v, v) for _, v in R.REQUESTS)
    named_rsp = ' && '.join('class_of_u8(u8_of_class(MessageClass::Response(ResponseType::%s))) == MessageClass::Response(ResponseType::%s)' % (v, v) for _, v in R.RESPONSES)
    return '''
// ---- one-to-one lemmas over the registry spec functions (C05: number->name->number is the
//      identity on the whole number space; name->number->name for every named value) ----
proof fn lemma_option_number_identity(n: u16) ensures u16_of_option(option_of_u16(n)) == n {}
proof fn lemma_option_named_identity() ensures %s {}
proof fn lemma_option_unassigned(n: u16)
    requires %s
    ensures option_of_u16(n) == CoapOption::Unknown(n) {}
proof fn lemma_class_number_identity(n: u8) ensures u8_of_class(class_of_u8(n)) == n {}
proof fn lemma_class_named_identity() ensures class_of_u8(u8_of_class(MessageClass::Empty)) == MessageClass::Empty && %s && %s {}
proof fn lemma_cf_number_identity(n: usize) ensures cf_of_usize(n) is Ok ==> usize_of_cf(cf_of_usize(n)->Ok_0) == n {}
proof fn lemma_cf_named_identity() ensures %s {}
proof fn lemma_cf_fits_u16(f: ContentFormat) ensures usize_of_cf(f) <= 65535 {}
proof fn lemma_observe_identity(n: usize) ensures observe_of_usize(n) is Ok ==> usize_of_observe(observe_of_usize(n)->Ok_0) == n {}
proof fn lemma_error_class(n: u8)
    ensures class_of_u8(n) is Response ==> (n >= 0x40 && (n >= 0x80 <==> spec_is_error(class_of_u8(n)->Response_0)))
{}
// a response code is an error exactly when its byte is 4.00 (0x80) or above
pub open spec fn spec_is_error(t: ResponseType) -> bool { t != ResponseType::UnKnown && u8_of_class(MessageClass::Response(t)) >= 0x80 || t == ResponseType::UnKnown }

pub open spec fn type_of_bits(n: int) -> MessageType {
    if n == 0 { MessageType::Confirmable } else if n == 1 { MessageType::NonConfirmable } else if n == 2 { MessageType::Acknowledgement } else { MessageType::Reset }
}
pub open spec fn bits_of_type(t: MessageType) -> int {
    match t { MessageType::Confirmable => 0, MessageType::NonConfirmable => 1, MessageType::Acknowledgement => 2, MessageType::Reset => 3 }
}
proof fn lemma_type_identity(n: int) requires 0 <= n <= 3 ensures bits_of_type(type_of_bits(n)) == n {}
''' % (named_opts,
       ' && '.join('n != %d' % k for k, _ in R.OPTIONS),
       named_req, named_rsp, named_cf)


def build(repo):
    R = common.registry
    u = Unit(NAME, repo)
    u.prelude('wire.rs')
    u.raw(R.class_spec() + R.option_spec() + R.content_format_spec() + R.observe_spec(), 'spec/registry.py')
    u.raw(lemma_text(), 'units/tables.py')
    u.items('error.rs', 'pub struct InvalidContentFormat', 'pub struct InvalidObserve')
    u.items('header.rs', 'pub enum MessageClass', 'impl From<u8> for MessageClass', 'impl From<MessageClass> for u8',
            'pub enum RequestType', 'pub enum ResponseType', 'pub enum MessageType', 'pub struct Header')
    u.impl_fns('header.rs', 'impl Header', ['set_type', 'get_type'])
    u.items('packet.rs', 'pub enum CoapOption', 'impl From<u16> for CoapOption', 'impl From<CoapOption> for u16',
            'pub enum ContentFormat', 'impl TryFrom<usize> for ContentFormat', 'impl From<ContentFormat> for usize',
            'pub enum ObserveOption', 'impl TryFrom<usize> for ObserveOption', 'impl From<ObserveOption> for usize')
    u.assemble()
    common.common_rules(u, linked_list=(0, 0))
    u.rule('R12:unreachable', r'_ => unreachable!\(\),',
           '_ => { unreachable!() }', 1)
    u.contract(('impl Header', 'get_type'),
               '        ensures r == type_of_bits(((self.ver_type_tkl as int) / 16) % 4)', props=PROPS)
    u.contract(('impl Header', 'set_type'),
               '''        ensures
            ((final(self).ver_type_tkl as int) / 16) % 4 == bits_of_type(t),
            (final(self).ver_type_tkl as int) / 64 == (old(self).ver_type_tkl as int) / 64,
            (final(self).ver_type_tkl as int) % 16 == (old(self).ver_type_tkl as int) % 16,
            final(self).code == old(self).code, final(self).message_id == old(self).message_id''', props=PROPS + ['C01'])
    common.header_bit_hints(u, 'impl Header', fns=('set_type', 'get_type'))
    u.finish(common.HEAD)
    return u
