"""Unit `key`: the block-transfer cache key `RequestCacheKey::from(&CoapRequest)` (C12).

The state cache of the block handler is keyed by this struct (derived Ord/Eq, i.e. field-wise).
Proved here on the real `From` impl: the three fields are exactly (request code byte of the method,
Uri-Path segments as text, a clone of the requesting endpoint), and therefore - lemma
`lemma_keys_differ` - two requests that differ in endpoint, in method or in the list of path
segments never share a key.  Unit `blk` works with an abstract key id and assumes exactly this
(its `key_of`); the isolation clauses there are stated per key.

Assumed: `CoapRequest::get_path_as_vec` (iterator adapters + `String::from_utf8`, outside Verus'
dialect): Ok(the decoded segments, in order) if every Uri-Path value is valid UTF-8, Err otherwise."""
from vf.unit import Unit
from . import common

NAME = 'key'
PROPS = ['C12']
RLIMIT = 20

SPEC = r'''
pub use ResponseType as Status;
pub use RequestType as Method;
// Result::unwrap_or_default (std): the value for Ok, T::default() for Err
pub assume_specification<T, E> [Result::<T, E>::unwrap_or_default] (res: Result<T, E>) -> (r: T)
    where E: core::marker::Destruct, T: Default + core::marker::Destruct
    ensures res is Ok ==> r == res->Ok_0, res is Err ==> call_ensures(T::default, (), r);
// String::from_utf8 (std): decoding of one option value, None if it is not valid UTF-8
pub uninterp spec fn utf8_text(b: Seq<u8>) -> Option<Seq<char>>;
pub uninterp spec fn joined_path_text(p: Packet) -> Seq<char>;
pub open spec fn uri_path(p: Packet) -> Seq<Seq<u8>> { if opts_view(p.options).contains_key(11) { opts_view(p.options)[11] } else { Seq::empty() } }
pub open spec fn path_valid(p: Packet) -> bool { forall|i: int| 0 <= i < uri_path(p).len() ==> utf8_text(#[trigger] uri_path(p)[i]) is Some }
pub open spec fn path_segs(p: Packet) -> Seq<Seq<char>> { Seq::new(uri_path(p).len(), |i: int| utf8_text(uri_path(p)[i]).unwrap()) }
pub open spec fn strs(v: Vec<String>) -> Seq<Seq<char>> { Seq::new(v@.len(), |i: int| v@[i]@) }
pub open spec fn method_of(c: MessageClass) -> RequestType { if c is Request { c->Request_0 } else { RequestType::UnKnown } }

impl<'a, Endpoint: Ord + Clone> FromSpecImpl<&'a CoapRequest<Endpoint>> for RequestCacheKey<Endpoint> {
    open spec fn obeys_from_spec() -> bool { false }
    open spec fn from_spec(v: &'a CoapRequest<Endpoint>) -> Self { arbitrary() }
}
// clone() of the endpoint type returns an equal value (a law of the user's Endpoint type, assumed)
pub open spec fn clone_is_copy<E: Clone>() -> bool { forall|a: E, b: E| #[trigger] call_ensures(E::clone, (&a,), b) ==> a == b }

// what identifies a transfer according to C12, and what the key stores
pub open spec fn transfer_id<E>(q: CoapRequest<E>) -> (RequestType, Seq<Seq<char>>, Option<E>) { (method_of(q.message.header.code), path_segs(q.message), q.source) }
pub open spec fn key_fields<E: Ord + Clone>(k: RequestCacheKey<E>) -> (u8, Seq<Seq<char>>, Option<E>) { (k.request_type_ord, strs(k.path), k.requester) }
// the method component of the key: the method's code byte (every unnamed code as one "unknown" method), or the request's own
// code byte (unnamed codes kept apart) - either separates different methods, which is all C12 asks
pub open spec fn method_key_ok(c: MessageClass, b: u8) -> bool {
    b == u8_of_class(MessageClass::Request(method_of(c))) || b == u8_of_class(c)
}
pub open spec fn key_for<E: Ord + Clone>(q: CoapRequest<E>, k: RequestCacheKey<E>) -> bool {
    method_key_ok(q.message.header.code, k.request_type_ord) && strs(k.path) == path_segs(q.message) && k.requester == q.source
}
// the code byte is one-to-one on methods (UnKnown included: 0xFF)
proof fn lemma_method_byte_injective(a: RequestType, b: RequestType)
    ensures u8_of_class(MessageClass::Request(a)) == u8_of_class(MessageClass::Request(b)) ==> a == b
{}
// the code byte of a class value that came from a byte (every header code does)
pub open spec fn class_wf(c: MessageClass) -> bool { class_of_u8(u8_of_class(c)) == c }
// C12: requests that differ in endpoint, method or path (segment list) have keys that differ in a field
// (requests with field-wise equal keys agree in all three)
proof fn lemma_keys_differ<E: Ord + Clone>(q1: CoapRequest<E>, k1: RequestCacheKey<E>, q2: CoapRequest<E>, k2: RequestCacheKey<E>)
    requires key_for(q1, k1), key_for(q2, k2), class_wf(q1.message.header.code), class_wf(q2.message.header.code)
    ensures (key_fields(k1) == key_fields(k2)) ==> (transfer_id(q1) == transfer_id(q2))
{
    lemma_method_byte_injective(method_of(q1.message.header.code), method_of(q2.message.header.code));
    lemma_method_byte(q1.message.header.code); lemma_method_byte(q2.message.header.code);
}
// the byte of a code determines its method
proof fn lemma_method_byte(c: MessageClass)
    requires class_wf(c)
    ensures method_of(class_of_u8(u8_of_class(c))) == method_of(c),
        (1 <= u8_of_class(c) <= 7) <==> (method_of(c) != RequestType::UnKnown),
        method_of(c) != RequestType::UnKnown ==> u8_of_class(MessageClass::Request(method_of(c))) == u8_of_class(c),
        method_of(c) == RequestType::UnKnown ==> u8_of_class(MessageClass::Request(method_of(c))) == 0xFF
{}
// segmentation matters: ["a","b"] and ["a/b"] are different segment lists (different lengths)
proof fn lemma_segmentation_distinguished(s1: Seq<Seq<char>>, s2: Seq<Seq<char>>)
    requires s1.len() != s2.len()
    ensures s1 != s2
{}
'''


def build(repo):
    R = common.registry
    u = Unit(NAME, repo)
    u.prelude('std_stubs.rs', 'deque_stubs.rs', 'views.rs', 'wire.rs')
    u.raw(R.class_spec(), 'spec/registry.py')
    u.raw(SPEC, 'units/key.py')
    u.raw(common.HEADERRAW_TRYFROM_SPEC, 'units/common.py')
    common.header_items(u, fns=['new', 'from_raw', 'get_token_length'])
    u.items('error.rs', 'pub struct IncompatibleOptionValueFormat')
    common.packet_struct(u)
    u.item('response.rs', 'pub struct CoapResponse')
    u.item('request.rs', 'pub struct CoapRequest<Endpoint>')
    u.impl_fns('request.rs', 'impl<Endpoint> CoapRequest<Endpoint>', ['get_method', 'get_path_as_vec', 'get_path'])
    u.item('block_handler/mod.rs', 'pub struct RequestCacheKey<Endpoint: Ord + Clone>')
    u.item('block_handler/mod.rs', 'impl<Endpoint: Ord + Clone> From<&CoapRequest<Endpoint>> for RequestCacheKey<Endpoint>')
    u.assemble()
    common.common_rules(u)
    common.header_contracts(u, PROPS)
    u.rule('derive-drop:CoapRequest/CoapResponse', r'#\[derive\(Clone, Debug, PartialEq\)\]\s*pub struct (CoapRequest<Endpoint>|CoapResponse)', r'pub struct \1', 2)
    u.rule('derive-drop:RequestCacheKey (derived Ord/Eq are field-wise: trusted)', r'#\[derive\(Ord, PartialOrd, Eq, PartialEq, Clone\)\]\s*pub struct RequestCacheKey', 'pub struct RequestCacheKey', 1)
    u.rule('derive-drop:IncompatibleOptionValueFormat', r'#\[derive\([^)]*\)\]\s*pub struct IncompatibleOptionValueFormat', 'pub struct IncompatibleOptionValueFormat', (0, 1))
    u.pub_fields('RequestCacheKey')
    u.pub_fields('CoapRequest')
    RQ = 'impl<Endpoint> CoapRequest<Endpoint>'
    KF = ('impl<Endpoint: Ord + Clone> From<&CoapRequest<Endpoint>> for RequestCacheKey<Endpoint>', 'from')
    u.contract((RQ, 'get_method'), '        ensures *r == method_of(self.message.header.code)', props=PROPS)
    u.contract((RQ, 'get_path_as_vec'), '''        ensures path_valid(self.message) ==> r is Ok && strs(r->Ok_0) == path_segs(self.message),
            !path_valid(self.message) ==> r is Err''')
    u.stub_fn((RQ, 'get_path_as_vec'))
    # get_path (the '/'-joined string, verified in unit path) is available to the key constructor as an opaque function of the
    # message: a key built from it cannot be shown to hold the segment list
    u.contract((RQ, 'get_path'), '        ensures r@ == joined_path_text(self.message)')
    u.stub_fn((RQ, 'get_path'))
    u.contract(('impl From<MessageClass> for u8', 'from'), '        ensures r == u8_of_class(class)', props=PROPS)
    u.contract(KF, '''        ensures
            // @clause key-is-method-path-endpoint @props C12
            clone_is_copy::<Endpoint>() && path_valid(request.message) ==> key_for(*request, r),
            // a path that is not text at all is outside C12's quantifier (today it is keyed like the empty
            // path - recorded in DESIGN.md); method and endpoint still have to be in the key
            clone_is_copy::<Endpoint>() ==> method_key_ok(request.message.header.code, r.request_type_ord)
                && r.requester == request.source''', props=PROPS)
    u.probe('lemma_keys_differ')
    u.probe('lemma_method_byte_injective')
    u.finish(common.HEAD)
    return u
