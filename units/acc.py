"""Unit `acc`: the mutators and getters through which a message is assembled - header bit-field
setters/getters, Packet::set_token and the raw option accessors - each with a whole-view
postcondition (the touched field gets the new value, every other field is unchanged).
C01 (any order of API calls), C06/C19 (raw accessors under the typed ones)."""
import re

from vf.unit import Unit
from . import common

NAME = 'acc'
PROPS = ['C01', 'C06', 'C19']
RLIMIT = 30

SPEC = r'''
// header byte fields (RFC 7252 figure 7): Ver (2 bits) | T (2 bits) | TKL (4 bits)
pub open spec fn ver_of(x: u8) -> int { (x as int) / 64 }
pub open spec fn type_bits_of(x: u8) -> int { ((x as int) / 16) % 4 }
pub open spec fn tkl_of(x: u8) -> int { (x as int) % 16 }
pub open spec fn type_of_bits(n: int) -> MessageType {
    if n == 0 { MessageType::Confirmable } else if n == 1 { MessageType::NonConfirmable } else if n == 2 { MessageType::Acknowledgement } else { MessageType::Reset }
}
pub open spec fn bits_of_type(t: MessageType) -> int {
    match t { MessageType::Confirmable => 0, MessageType::NonConfirmable => 1, MessageType::Acknowledgement => 2, MessageType::Reset => 3 }
}
// everything of a packet except the header byte
pub open spec fn same_but_vtt(a: Packet, b: Packet) -> bool {
    a.header.code == b.header.code && a.header.message_id == b.header.message_id && a.token@ == b.token@
    && opts_view(a.options) == opts_view(b.options) && a.payload@ == b.payload@
}
pub open spec fn same_but_options(a: Packet, b: Packet) -> bool {
    a.header == b.header && a.token@ == b.token@ && a.payload@ == b.payload@
}
proof fn lemma_view_insert(m: BTreeMap<u16, VecDeque<Vec<u8>>>, m2: BTreeMap<u16, VecDeque<Vec<u8>>>, k: u16, l: VecDeque<Vec<u8>>)
    requires m2@ == m@.insert(k, l)
    ensures opts_view(m2) == opts_view(m).insert(k, vals_view(l))
{
    reveal(opts_view);
    assert(opts_view(m2) =~= opts_view(m).insert(k, vals_view(l)));
}
proof fn lemma_view_get(m: BTreeMap<u16, VecDeque<Vec<u8>>>, k: u16)
    ensures opts_view(m).contains_key(k) == m@.contains_key(k), m@.contains_key(k) ==> opts_view(m)[k] == vals_view(m@[k])
{ reveal(opts_view); }
proof fn lemma_view_empty(m: BTreeMap<u16, VecDeque<Vec<u8>>>)
    requires m@ == Map::<u16, VecDeque<Vec<u8>>>::empty()
    ensures opts_view(m) == Map::<u16, Seq<Seq<u8>>>::empty()
{ reveal(opts_view); assert(opts_view(m) =~= Map::<u16, Seq<Seq<u8>>>::empty()); }
'''

TYPED = r'''
// ---- option_value.rs: the two private conversion functions are NOT read by Verus (iterator
// fold / vec! / reverse); their contracts below are proved on the real functions, for all values
// of all four widths, by the Kani harnesses uint_encode_* / uint_decode_* (kani/src/uints.rs)
#[verifier::external_body]
fn option_from_uint(value_as_u64: u64, value_size: usize) -> (r: Vec<u8>)
    requires value_size == 1 || value_size == 2 || value_size == 4 || value_size == 8, (value_as_u64 as nat) < pow256(value_size as nat) || value_size == 8
    ensures r@ == uint_be_min(value_as_u64 as nat)
{ unimplemented!() }
#[verifier::external_body]
fn option_to_uint(encoded: &[u8], value_size: usize) -> (r: Result<u64, IncompatibleOptionValueFormat>)
    requires value_size == 1 || value_size == 2 || value_size == 4 || value_size == 8
    ensures encoded@.len() > value_size ==> r is Err, encoded@.len() <= value_size ==> r is Ok && r->Ok_0 as nat == be_val(encoded@)
{ unimplemented!() }
pub struct IncompatibleOptionValueFormat { pub message: String }
// the generic From/TryFrom contract of vstd (r == from_spec(x)) cannot describe a Vec result up
// to its contents, so it is switched off and each impl carries its own view-level ensures
impl FromSpecImpl<OptionValueU16> for Vec<u8> { open spec fn obeys_from_spec() -> bool { false } open spec fn from_spec(v: OptionValueU16) -> Self { arbitrary() } }
impl FromSpecImpl<OptionValueU32> for Vec<u8> { open spec fn obeys_from_spec() -> bool { false } open spec fn from_spec(v: OptionValueU32) -> Self { arbitrary() } }
impl TryFromSpecImpl<Vec<u8>> for OptionValueU16 { open spec fn obeys_try_from_spec() -> bool { false } open spec fn try_from_spec(v: Vec<u8>) -> Result<Self, IncompatibleOptionValueFormat> { arbitrary() } }
impl TryFromSpecImpl<Vec<u8>> for OptionValueU32 { open spec fn obeys_try_from_spec() -> bool { false } open spec fn try_from_spec(v: Vec<u8>) -> Result<Self, IncompatibleOptionValueFormat> { arbitrary() } }
'''

H = 'impl Header'
P = 'impl Packet'
ADD_OPTION_STATE = '''        proof {
            // state-based (does not mention any local of the body): whichever branch ran, the list under the option number
            // is the old list, or the empty list if there was none, with the value appended
            reveal(opts_view);
            let n = u16_of_option(tp);
            lemma_view_get(old(self).options, n);
            assert(self.options@.contains_key(n));
            if old(self).options@.contains_key(n) {
                assert(self.options@[n]@ =~= old(self).options@[n]@.push(value));
                assert(self.options@ =~= old(self).options@.insert(n, self.options@[n]));
                assert(vals_view(self.options@[n]) =~= vals_view(old(self).options@[n]).push(value@));
            } else {
                assert(self.options@[n]@ =~= Seq::<Vec<u8>>::empty().push(value));
                assert(vals_view(self.options@[n]) =~= Seq::<Seq<u8>>::empty().push(value@));
            }
            assert(opts_view(self.options) =~= push_opt(opts_view(old(self).options), n, value@));
        }'''


def build(repo):
    u = Unit(NAME, repo)
    populate(u)
    u.finish(common.HEAD)
    return u


def populate(u, extra_items=None, extra_packet_fns=(), extra_spec=''):
    """Header + Packet accessor layer under contract; other units (resp, ...) build on it by passing
    further items to extract before assembly and adding their own contracts afterwards."""
    R = common.registry
    u.prelude('std_stubs.rs', 'deque_stubs.rs', 'views.rs', 'wire.rs')
    u.raw(R.class_spec() + R.option_spec(), 'spec/registry.py')
    u.raw(common.HEADERRAW_TRYFROM_SPEC + SPEC, 'units/acc.py')
    common.header_items(u)
    u.items('packet.rs', 'pub enum CoapOption', 'impl From<u16> for CoapOption', 'impl From<CoapOption> for u16')
    common.packet_struct(u)
    u.impl_fns('packet.rs', 'impl Packet', ['new', 'set_token', 'get_token', 'set_option', 'get_option', 'get_first_option',
                                            'add_option', 'clear_option', 'clear_all_options',
                                            'add_option_as', 'get_first_option_as', 'set_observe_value', 'get_observe_value'] + list(extra_packet_fns))
    u.prelude('uint.rs')
    u.raw(TYPED, 'units/acc.py')
    u.item('option_value.rs', 'pub trait OptionValueType')
    u.expand_macro('option_value.rs', 'option_value_uint_impl', only=['OptionValueU16', 'OptionValueU32'])
    if extra_spec:
        u.raw(extra_spec, 'extra spec')
    if extra_items:
        extra_items(u)
    u.assemble()
    u.expand_derive_default('Packet')
    u.contract(('impl Default for Packet', 'default'), '''        ensures r.header.ver_type_tkl == 0x40, r.header.code == MessageClass::Request(RequestType::Get), r.header.message_id == 0,
            r.token@ == Seq::<u8>::empty(), r.options@ == Map::<u16, VecDeque<Vec<u8>>>::empty(), r.payload@ == Seq::<u8>::empty()''', props=['C07', 'C15'])
    u.contract(('impl Default for Header', 'default'), '        ensures r.ver_type_tkl == 0x40, r.code == MessageClass::Request(RequestType::Get), r.message_id == 0', props=['C07', 'C15'])
    u.contract(('impl Default for HeaderRaw', 'default'), '        ensures r.ver_type_tkl == 0x40, r.code == 1, r.message_id == 0', props=['C07', 'C15'])
    u.contract((P, 'new'), '''        ensures r.header.ver_type_tkl == 0x40, r.header.code == MessageClass::Request(RequestType::Get), r.header.message_id == 0,
            r.token@ == Seq::<u8>::empty(), opts_view(r.options) == Map::<u16, Seq<Seq<u8>>>::empty(), r.payload@ == Seq::<u8>::empty()''', props=['C07', 'C15'])
    u.body_end((P, 'new'), '')
    u.replace_in((P, 'new'), 'tail-expression-named', r'Default::default\(\)\s*\}$', '''let r: Packet = Default::default();
        proof { lemma_view_empty(r.options); }
        r
    }''')
    common.common_rules(u)
    common.header_contracts(u, PROPS)
    u.rule('R12:unreachable', r'_ => unreachable!\(\),',
           '_ => { unreachable!() }', 1)

    # ---- header bit fields -------------------------------------------------------------------
    u.contract((H, 'set_version'), '''        requires v < 4
        ensures ver_of(final(self).ver_type_tkl) == v, type_bits_of(final(self).ver_type_tkl) == type_bits_of(old(self).ver_type_tkl),
            tkl_of(final(self).ver_type_tkl) == tkl_of(old(self).ver_type_tkl),
            final(self).code == old(self).code, final(self).message_id == old(self).message_id''', props=['C01', 'C07'])
    u.contract((H, 'get_version'), '        ensures r == ver_of(self.ver_type_tkl)', props=['C01', 'C07'])
    u.contract((H, 'get_type'), '        ensures r == type_of_bits(type_bits_of(self.ver_type_tkl))', props=['C01', 'C05', 'C07'])
    u.contract((H, 'set_type'), '''        ensures type_bits_of(final(self).ver_type_tkl) == bits_of_type(t), ver_of(final(self).ver_type_tkl) == ver_of(old(self).ver_type_tkl),
            tkl_of(final(self).ver_type_tkl) == tkl_of(old(self).ver_type_tkl),
            final(self).code == old(self).code, final(self).message_id == old(self).message_id''', props=['C01', 'C05', 'C07'])
    u.contract((H, 'set_token_length'), '''        requires tkl < 16
        ensures tkl_of(final(self).ver_type_tkl) == tkl, ver_of(final(self).ver_type_tkl) == ver_of(old(self).ver_type_tkl),
            type_bits_of(final(self).ver_type_tkl) == type_bits_of(old(self).ver_type_tkl),
            final(self).code == old(self).code, final(self).message_id == old(self).message_id''', props=['C01', 'C07'])

    common.header_bit_hints(u, H, fns=('set_version', 'get_version', 'set_type', 'get_type', 'set_token_length'))

    # ---- token ---------------------------------------------------------------------------------
    u.contract((P, 'set_token'), '''        requires token@.len() <= 8
        ensures final(self).token@ == token@, tkl_of(final(self).header.ver_type_tkl) == token@.len(),
            ver_of(final(self).header.ver_type_tkl) == ver_of(old(self).header.ver_type_tkl),
            type_bits_of(final(self).header.ver_type_tkl) == type_bits_of(old(self).header.ver_type_tkl),
            final(self).header.code == old(self).header.code, final(self).header.message_id == old(self).header.message_id,
            final(self).options == old(self).options, final(self).payload == old(self).payload''', props=['C01', 'C07'])
    u.contract((P, 'get_token'), '        ensures r@ == self.token@', props=['C01', 'C07'])

    # ---- raw option accessors: whole-view postconditions ---------------------------------------
    u.contract((P, 'add_option'), '''        ensures opts_view(final(self).options) == push_opt(opts_view(old(self).options), u16_of_option(tp), value@),
            same_but_options(*final(self), *old(self))''')
    u.contract((P, 'set_option'), '''        ensures opts_view(final(self).options) == opts_view(old(self).options).insert(u16_of_option(tp), vals_view(value)),
            same_but_options(*final(self), *old(self))''')
    u.body_end((P, 'set_option'), '''        proof { reveal(opts_view); assert(opts_view(self.options) =~= opts_view(old(self).options).insert(u16_of_option(tp), vals_view(value))); }''')
    # add_option: the same state-based proof at every exit (each `return;` and the end of the body)
    _s, _p, _bo, _bc = u._fn_span((P, 'add_option'))
    _nret = len(re.findall(r'(?<![A-Za-z0-9_])return\s*;', _s.code[_bo:_bc]))
    for _k in range(_nret - 1, -1, -1):
        u.before((P, 'add_option'), r'(?<![A-Za-z0-9_])return\s*;', ADD_OPTION_STATE, nth=_k, count=_nret)
    u.body_end((P, 'add_option'), ADD_OPTION_STATE)
    u.body_end((P, 'clear_option'), '''        proof {
            reveal(opts_view);
            let n = u16_of_option(tp);
            if old(self).options@.contains_key(n) {
                assert(self.options@.contains_key(n));
                assert(self.options@[n]@ =~= Seq::<Vec<u8>>::empty());
                assert(self.options@ == old(self).options@.insert(n, self.options@[n]));
                assert(vals_view(self.options@[n]) =~= Seq::<Seq<u8>>::empty());
                assert(opts_view(self.options) =~= opts_view(old(self).options).insert(n, Seq::<Seq<u8>>::empty()));
            }
            else { assert(opts_view(self.options) =~= opts_view(old(self).options)); }
        }''')
    u.replace_in((P, 'clear_all_options'), 'tail-unit-semicolon', r'self\.options\.clear\(\)\s*\}$', '''self.options.clear();
        proof { lemma_view_empty(self.options); }
    }''')
    u.contract((P, 'get_option'), '''        ensures r is Some <==> opts_view(self.options).contains_key(u16_of_option(tp)),
            r is Some ==> vals_view(*r->0) == opts_view(self.options)[u16_of_option(tp)]''')
    u.body_start((P, 'get_option'), '        proof { lemma_view_get(self.options, u16_of_option(tp)); }')
    u.contract((P, 'get_first_option'), '''        ensures r is Some <==> (opts_view(self.options).contains_key(u16_of_option(tp)) && opts_view(self.options)[u16_of_option(tp)].len() > 0),
            r is Some ==> r->0@ == opts_view(self.options)[u16_of_option(tp)][0]''')
    u.body_start((P, 'get_first_option'), '        proof { lemma_view_get(self.options, u16_of_option(tp)); }')
    u.replace_in((P, 'get_first_option'), 'R18:closure-contract', r'\|options\| options\.front\(\)',
                 '|options: &VecDeque<Vec<u8>>| -> (o: Option<&Vec<u8>>) ensures options@.len() == 0 ==> o is None, options@.len() > 0 ==> o is Some && *o->0 == options@[0] { options.front() }', (0, 1))
    u.contract((P, 'clear_option'), '''        ensures opts_view(final(self).options) == (if opts_view(old(self).options).contains_key(u16_of_option(tp))
                { opts_view(old(self).options).insert(u16_of_option(tp), Seq::<Seq<u8>>::empty()) } else { opts_view(old(self).options) }),
            same_but_options(*final(self), *old(self))''')
    u.contract((P, 'clear_all_options'), '''        ensures opts_view(final(self).options) == Map::<u16, Seq<Seq<u8>>>::empty(), same_but_options(*final(self), *old(self))''')
    # ---- typed accessors (C06) -------------------------------------------------------------------
    for ty, w in [('OptionValueU16', 2), ('OptionValueU32', 4)]:
        u.contract(('impl From<%s> for Vec<u8>' % ty, 'from'), '            ensures r@ == uint_be_min(value.0 as nat)', props=['C06', 'C19'])
        u.body_start(('impl From<%s> for Vec<u8>' % ty, 'from'), '            proof { lemma_pow256_values(); }')
        u.contract(('impl TryFrom<Vec<u8>> for %s' % ty, 'try_from'), '''            ensures value@.len() > %d ==> r is Err,
                value@.len() <= %d ==> r is Ok && r->Ok_0.0 as nat == be_val(value@)''' % (w, w), props=['C06', 'C19'])
        u.body_start(('impl TryFrom<Vec<u8>> for %s' % ty, 'try_from'), '            proof { lemma_be_val_bound(value@); lemma_pow256_values(); if value@.len() <= %d { lemma_pow256_mono(value@.len(), %d); } }' % (w, w))
        u.replace_in(('impl TryFrom<Vec<u8>> for %s' % ty, 'try_from'), 'R18:closure-contract', r'\|value_as_u64\| (\w+)\(value_as_u64 as (\w+)\)',
                     r'|value_as_u64: u64| -> (o: \1) ensures o.0 == value_as_u64 as \2 { \1(value_as_u64 as \2) }')
    u.contract((P, 'add_option_as'), '''        ensures exists|raw: Vec<u8>| call_ensures(<T as Into<Vec<u8>>>::into, (value,), raw)
                && #[trigger] opts_view(final(self).options) == push_opt(opts_view(old(self).options), u16_of_option(tp), raw@),
            same_but_options(*final(self), *old(self))''', props=['C06', 'C19'])
    u.contract((P, 'get_first_option_as'), '''        ensures r is Some <==> (opts_view(self.options).contains_key(u16_of_option(tp)) && opts_view(self.options)[u16_of_option(tp)].len() > 0),
            r is Some ==> exists|c: Vec<u8>| #[trigger] c@ == opts_view(self.options)[u16_of_option(tp)][0] && call_ensures(<T as TryFrom<Vec<u8>>>::try_from, (c,), r->0)''', props=['C06', 'C19'])
    u.replace_in((P, 'get_first_option_as'), 'R18:closure-contract', r'\|value\| T::try_from\(value\.clone\(\)\)',
                 '|value: &Vec<u8>| -> (o: Result<T, IncompatibleOptionValueFormat>) ensures exists|c: Vec<u8>| #[trigger] c@ == value@ && call_ensures(<T as TryFrom<Vec<u8>>>::try_from, (c,), o) { T::try_from(value.clone()) }')
    u.contract((P, 'set_observe_value'), '''        ensures opts_view(final(self).options) == opts_view(old(self).options).insert(6, seq![uint_be_min(value as nat)]),
            same_but_options(*final(self), *old(self))''', props=['C06', 'C15', 'C19'])
    u.contract((P, 'get_observe_value'), '''        ensures r is Some <==> (opts_view(self.options).contains_key(6) && opts_view(self.options)[6].len() > 0),
            r is Some ==> ({ let b = opts_view(self.options)[6][0];
                (b.len() > 4 ==> r->0 is Err) && (b.len() <= 4 ==> r->0 is Ok && r->0->Ok_0 as nat == be_val(b)) })''', props=['C06', 'C19'])
    u.replace_in((P, 'get_observe_value'), 'R18:closure-contract', r'\|option\| option\.map\(\|value\| value\.0\)',
                 '|option: Result<OptionValueU32, IncompatibleOptionValueFormat>| -> (o: Result<u32, IncompatibleOptionValueFormat>) ensures option is Err ==> o is Err, option is Ok ==> o is Ok && o->Ok_0 == option->Ok_0.0 { option.map(|value: OptionValueU32| -> (x: u32) ensures x == value.0 { value.0 }) }')
