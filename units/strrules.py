"""R34: the std `str` functions used by link_format.rs, read through the wrappers of spec/strmodel.rs.
The rules are generic over receiver and argument so that an edit which uses another of these
functions, or the same one on another expression, is still read (and then judged by the
contracts) instead of ending as an unsupported construct."""

RECV = r'((?:\w+(?:\.\w+)*)(?:\((?:[^()]|\([^()]*\))*\))?(?:\.as_str\(\))?)'
CHARG = r"('(?:\\.|[^'\\])'|[A-Z][A-Z0-9_]*)"
E = r'((?:[^\]\[.]|\.(?!\.))+?)'   # an index expression without `..`

ONE_ARG = [('find', 'str_find_char'), ('rfind', 'str_rfind_char'), ('starts_with', 'str_starts_with_char'), ('ends_with', 'str_ends_with_char'),
           ('strip_suffix', 'str_strip_suffix_char'), ('strip_prefix', 'str_strip_prefix_char'),
           ('trim_end_matches', 'str_trim_end_matches'), ('trim_start_matches', 'str_trim_start_matches'), ('trim_matches', 'str_trim_matches')]
NO_ARG = [('trim', 'str_trim'), ('is_empty', 'str_is_empty'), ('len', 'str_len')]


def apply(u, F, split_at=True):
    n = 0
    n += u.replace_in(F, 'R34:place-slice-to', r'\((\w+)\[\.\.' + E + r'\]\)', r'str_to(\1, \2)', (0, 9))
    n += u.replace_in(F, 'R34:slice-range', r'&([\w.]+)\[' + E + r'\.\.' + E + r'\]', r'str_to(str_from(\1, \2), (\3) - (\2))', (0, 9))
    n += u.replace_in(F, 'R34:slice-to', r'&?([\w.]+)\[\.\.' + E + r'\]', r'str_to(\1, \2)', (0, 9))
    n += u.replace_in(F, 'R34:slice-from', r'&([\w.]+)\[' + E + r'\.\.\]', r'str_from(\1, \2)', (0, 9))
    for _ in range(3):   # receivers may themselves be rewritten calls
        for m, w in ONE_ARG:
            n += u.replace_in(F, 'R34:' + m, r'(?<![\w.])' + RECV + r'\s*\.' + m + r'\(' + CHARG + r'\)', w + r'(\1, \2)', (0, 9))
        for m, w in NO_ARG:
            n += u.replace_in(F, 'R34:' + m, r'(?:(?<=\.\.)|(?<![\w.]))' + RECV + r'\s*\.' + m + r'\(\)', w + r'(\1)', (0, 9))
    if split_at:
        n += u.replace_in(F, 'R34:split_at', r'(?<![\w.])(\w+)\.split_at\((\w+)\)', r'str_split_at(\1, \2)', (0, 3))
    return n
