"""Unit `lst`: the list forms of the typed option accessors (Packet::set_options_as /
get_options_as) and the text option value (OptionValueString), on top of the accessor layer of
unit `acc` (C06: stored and returned element by element and in order; text options round-trip
and reject invalid UTF-8).

`iter().map(f).collect()` is outside Verus' dialect: the two occurrences are read as calls of a
map-and-collect wrapper with the real closure (rule R33, contract assumed: same length, element i
is f(element i)).  `String::from_utf8` / `String::into_bytes` carry assumed contracts over
utf8_text / utf8_bytes (decoding inverts encoding: axiom)."""
from vf.unit import Unit
from . import common, acc

NAME = 'lst'
PROPS = ['C06']
RLIMIT = 30

SPEC = r'''
// ---- text <-> bytes (std, UTF-8)
pub uninterp spec fn utf8_bytes(s: Seq<char>) -> Seq<u8>;
pub uninterp spec fn utf8_text(b: Seq<u8>) -> Option<Seq<char>>;
pub broadcast axiom fn axiom_utf8_roundtrip(s: Seq<char>)
    ensures #[trigger] utf8_text(utf8_bytes(s)) == Some(s);
pub broadcast axiom fn axiom_utf8_unique(b: Seq<u8>)
    ensures utf8_text(b) is Some ==> #[trigger] utf8_bytes(utf8_text(b)->0) == b;
pub assume_specification [String::into_bytes] (s: String) -> (r: Vec<u8>)
    ensures r@ == utf8_bytes(s@);
#[verifier::external_type_specification]
#[verifier::external_body]
pub struct ExFromUtf8Error(std::string::FromUtf8Error);
pub assume_specification [String::from_utf8] (v: Vec<u8>) -> (r: Result<String, std::string::FromUtf8Error>)
    ensures r is Ok <==> utf8_text(v@) is Some, r is Ok ==> r->Ok_0@ == utf8_text(v@)->0;
#[verifier::external_body]
pub fn utf8_error_text(e: std::string::FromUtf8Error) -> (r: String) { unimplemented!() }
impl FromSpecImpl<OptionValueString> for Vec<u8> { open spec fn obeys_from_spec() -> bool { false } open spec fn from_spec(v: OptionValueString) -> Self { arbitrary() } }
impl TryFromSpecImpl<Vec<u8>> for OptionValueString { open spec fn obeys_try_from_spec() -> bool { false } open spec fn try_from_spec(v: Vec<u8>) -> Result<Self, IncompatibleOptionValueFormat> { arbitrary() } }
// C06 (text options): every string round-trips, invalid UTF-8 is rejected
proof fn lemma_text_option_roundtrip(s: Seq<char>, b: Seq<u8>)
    ensures utf8_text(utf8_bytes(s)) == Some(s), utf8_text(b) is None || utf8_bytes(utf8_text(b)->0) == b
{ broadcast use axiom_utf8_roundtrip; broadcast use axiom_utf8_unique; }

// ---- R33: `.into_iter().map(f).collect()` / `.iter().map(f).collect()` on the option value list
#[verifier::external_body]
pub fn deque_map_collect<A, B, F: Fn(A) -> B>(l: VecDeque<A>, f: F) -> (r: VecDeque<B>)
    requires forall|x: A| call_requires(f, (x,))
    ensures r@.len() == l@.len(), forall|i: int| 0 <= i < l@.len() ==> call_ensures(f, (l@[i],), #[trigger] r@[i])
{ unimplemented!() }
#[verifier::external_body]
pub fn deque_ref_map_collect<'a, A, B, F: Fn(&'a A) -> B>(l: &'a VecDeque<A>, f: F) -> (r: VecDeque<B>)
    requires forall|x: &A| call_requires(f, (x,))
    ensures r@.len() == l@.len(), forall|i: int| 0 <= i < l@.len() ==> call_ensures(f, (&l@[i],), #[trigger] r@[i])
{ unimplemented!() }

proof fn lemma_min_len_u16(v: nat)
    requires v < 65536
    ensures uint_be_min(v).len() <= 2
{
    if v > 0 {
        let w = v / 256;
        if w > 0 { assert(w / 256 == 0); assert(uint_be_min(w / 256).len() == 0); assert(uint_be_min(w).len() == 1); }
    }
}
// C06 for the 16-bit instance: a list written with set_options_as::<OptionValueU16> reads back
// through get_options_as::<OptionValueU16> as the same numbers, element by element
proof fn lemma_u16_list_roundtrip(vals: Seq<u16>, raw: Seq<Seq<u8>>)
    requires raw.len() == vals.len(), forall|i: int| 0 <= i < vals.len() ==> #[trigger] raw[i] == uint_be_min(vals[i] as nat)
    ensures forall|i: int| 0 <= i < vals.len() ==> (#[trigger] raw[i]).len() <= 2 && be_val(raw[i]) == vals[i] as nat
{
    assert forall|i: int| 0 <= i < vals.len() implies (#[trigger] raw[i]).len() <= 2 && be_val(raw[i]) == vals[i] as nat by {
        lemma_be_val_min(vals[i] as nat);
        lemma_min_len_u16(vals[i] as nat);
    }
}
'''


def extra_items(u):
    u.item('option_value.rs', 'pub struct OptionValueString')
    u.items('option_value.rs', 'impl From<OptionValueString> for Vec<u8>', 'impl TryFrom<Vec<u8>> for OptionValueString', 'impl OptionValueType for OptionValueString')


def build(repo, name=NAME, more_items=None, more_spec='', finish=True):
    u = Unit(name, repo)

    def items(u):
        extra_items(u)
        if more_items:
            more_items(u)
    acc.populate(u, extra_items=items, extra_packet_fns=['set_options_as', 'get_options_as'], extra_spec=SPEC + more_spec)
    P = 'impl Packet'
    u.rule('derive-drop:OptionValueString', r'#\[derive\(Debug, Clone, PartialEq\)\]\s*pub struct OptionValueString', 'pub struct OptionValueString', 1)
    # ---- text option value
    FS = ('impl From<OptionValueString> for Vec<u8>', 'from')
    TS = ('impl TryFrom<Vec<u8>> for OptionValueString', 'try_from')
    u.contract(FS, '        ensures r@ == utf8_bytes(option_value.0@)', props=PROPS)
    u.contract(TS, '''        ensures (r is Ok) == (utf8_text(value@) is Some), r is Ok ==> r->Ok_0.0@ == utf8_text(value@)->0''', props=PROPS)
    u.replace_in(TS, 'R31:constructor-as-closure', r'\.map\(OptionValueString\)', '.map(|s: String| -> (o: OptionValueString) ensures o.0 == s { OptionValueString(s) })')
    u.replace_in(TS, 'R9:error-text', r'\|e\| IncompatibleOptionValueFormat \{\s*message: e\.to_string\(\),\s*\}',
                 '|e: std::string::FromUtf8Error| -> (o: IncompatibleOptionValueFormat) { IncompatibleOptionValueFormat { message: utf8_error_text(e) } }')
    # ---- list forms
    u.replace_in((P, 'set_options_as'), 'R33:into_iter-map-collect', r'value\.into_iter\(\)\.map\(\|x\| x\.into\(\)\)\.collect\(\)',
                 'deque_map_collect(value, |x: T| -> (o: Vec<u8>) ensures call_ensures(<T as Into<Vec<u8>>>::into, (x,), o) { x.into() })')
    u.replace_in((P, 'set_options_as'), 'R33:type-of-collected', r'let (\w+) = deque_map_collect', r'let \1: VecDeque<Vec<u8>> = deque_map_collect', (0, 1))
    u.contract((P, 'set_options_as'), '''        ensures
            // the option now holds one encoding per element, in order; nothing else changed
            exists|raw: VecDeque<Vec<u8>>| raw@.len() == value@.len()
                && (forall|i: int| 0 <= i < value@.len() ==> call_ensures(<T as Into<Vec<u8>>>::into, (value@[i],), #[trigger] raw@[i]))
                && #[trigger] opts_view(final(self).options) == opts_view(old(self).options).insert(u16_of_option(tp), vals_view(raw)),
            same_but_options(*final(self), *old(self))''', props=PROPS)
    u.replace_in((P, 'get_options_as'), 'R33:iter-map-collect',
                 r'options\s*\.iter\(\)\s*\.map\(\|raw_value\| T::try_from\(raw_value\.clone\(\)\)\)\s*\.collect\(\)',
                 'deque_ref_map_collect(options, |raw_value: &Vec<u8>| -> (o: Result<T, IncompatibleOptionValueFormat>) ensures exists|c: Vec<u8>| #[trigger] c@ == raw_value@ && call_ensures(<T as TryFrom<Vec<u8>>>::try_from, (c,), o) { T::try_from(raw_value.clone()) })')
    u.replace_in((P, 'get_options_as'), 'R18:closure-contract', r'\.map\(\|options\| \{',
                 '''.map(|options: &VecDeque<Vec<u8>>| -> (o: VecDeque<Result<T, IncompatibleOptionValueFormat>>)
                ensures o@.len() == options@.len(),
                    forall|i: int| 0 <= i < options@.len() ==> exists|c: Vec<u8>| #[trigger] c@ == options@[i]@ && call_ensures(<T as TryFrom<Vec<u8>>>::try_from, (c,), #[trigger] o@[i])
            {''')
    u.contract((P, 'get_options_as'), '''        ensures
            r is Some <==> opts_view(self.options).contains_key(u16_of_option(tp)),
            // one decoding per stored value, in order
            r is Some ==> r->0@.len() == opts_view(self.options)[u16_of_option(tp)].len()
                && forall|i: int| 0 <= i < r->0@.len() ==> exists|c: Vec<u8>| #[trigger] c@ == opts_view(self.options)[u16_of_option(tp)][i]
                    && call_ensures(<T as TryFrom<Vec<u8>>>::try_from, (c,), #[trigger] r->0@[i])''', props=PROPS)
    for l in ['lemma_text_option_roundtrip', 'lemma_u16_list_roundtrip']:
        u.probe(l)
    if finish:
        u.finish(common.HEAD)
    return u
