"""Unit `cch`: how the block handler configures and uses its state cache (C20, the part that is
coap-lite's own code).

The cache is the external crate lru_time_cache; its behaviour over time cannot be verified from
here and is ASSUMED as the model below (taken from the crate's documentation: entries idle for
longer than the expiry duration are purged on the next insertion and never returned; without a
capacity bound nothing else is ever evicted; entry() refreshes the entry it returns).  Relative to
that model C20 reduces to three facts about coap-lite, which this unit and unit blk check on the
real code:
  1. BlockHandler::new builds the cache with exactly the configured duration and no capacity bound
     (verified here on the real constructor; the stand-in type offers the crate's three constructors);
  2. the handler touches the cache only through `states.entry(key).or_insert(default)` under the
     key of the request in hand (unit blk: rule R24 reads exactly that expression; any other use of
     `states` fails to extract);
  3. the default configuration uses a positive duration.
The lemmas restate retention / expiry / reclamation over the model."""
from vf.unit import Unit
from . import common

NAME = 'cch'
PROPS = ['C20']
RLIMIT = 20

SPEC = r'''
use core::time::Duration;
use core::cmp::{max, min};
// ---- assumed model of lru_time_cache::LruCache (external crate)
pub struct LruCache<K, V> { pub k: Ghost<Seq<K>>, pub v: Ghost<Seq<V>> }
pub uninterp spec fn cache_expiry<K, V>(c: LruCache<K, V>) -> Duration;
pub uninterp spec fn cache_capacity<K, V>(c: LruCache<K, V>) -> Option<usize>;
impl<K, V> LruCache<K, V> {
    #[verifier::external_body]
    pub fn with_expiry_duration(d: Duration) -> (r: Self) ensures cache_expiry(r) == d, cache_capacity(r) is None { unimplemented!() }
    #[verifier::external_body]
    pub fn with_capacity(n: usize) -> (r: Self) ensures cache_capacity(r) == Some(n) { unimplemented!() }
    #[verifier::external_body]
    pub fn with_expiry_duration_and_capacity(d: Duration, n: usize) -> (r: Self) ensures cache_expiry(r) == d, cache_capacity(r) == Some(n) { unimplemented!() }
}
// ---- the time behaviour of such a cache, as documented by the crate (ASSUMED, stated over an abstract clock):
// an entry is a (state, last-touched) pair; entry(key) at time `now` first drops every entry idle for longer than the
// expiry, then returns the entry under `key` (refreshing it) or inserts the default
pub struct Slot<V> { pub state: V, pub last: int }
pub open spec fn live<V>(s: Slot<V>, now: int, expiry: int) -> bool { now - s.last <= expiry }
pub open spec fn purge<V>(m: Map<int, Slot<V>>, now: int, expiry: int) -> Map<int, Slot<V>> { m.restrict(m.dom().filter(|k: int| live(m[k], now, expiry))) }
pub open spec fn entry_at<V>(m: Map<int, Slot<V>>, key: int, now: int, expiry: int, dflt: V) -> (Map<int, Slot<V>>, V) {
    let p = purge(m, now, expiry);
    let st = if p.contains_key(key) { p[key].state } else { dflt };
    (p.insert(key, Slot { state: st, last: now }), st)
}
// C20 retention: a use of ANOTHER key leaves a not-yet-expired entry in place, untouched
proof fn lemma_retention<V>(m: Map<int, Slot<V>>, key: int, other: int, now: int, expiry: int, dflt: V)
    requires m.contains_key(key), other != key, live(m[key], now, expiry)
    ensures entry_at(m, other, now, expiry, dflt).0.contains_key(key), entry_at(m, other, now, expiry, dflt).0[key] == m[key]
{}
// C20 expiry: state idle for longer than the configured duration is never used again
proof fn lemma_expiry<V>(m: Map<int, Slot<V>>, key: int, now: int, expiry: int, dflt: V)
    requires m.contains_key(key), !live(m[key], now, expiry)
    ensures entry_at(m, key, now, expiry, dflt).1 == dflt
{}
// ... while state used within the duration is found again
proof fn lemma_found<V>(m: Map<int, Slot<V>>, key: int, now: int, expiry: int, dflt: V)
    requires m.contains_key(key), live(m[key], now, expiry)
    ensures entry_at(m, key, now, expiry, dflt).1 == m[key].state
{}
// C20 reclamation: after any use of the handler no expired entry is left
proof fn lemma_reclaim<V>(m: Map<int, Slot<V>>, key: int, now: int, expiry: int, dflt: V)
    requires expiry >= 0
    ensures forall|k: int| #[trigger] entry_at(m, key, now, expiry, dflt).0.contains_key(k) ==> live(entry_at(m, key, now, expiry, dflt).0[k], now, expiry)
{}
pub struct RequestCacheKey<Endpoint: Ord + Clone> { pub e: Option<Endpoint> }
pub struct BlockState { pub x: u8 }
pub uninterp spec fn duration_nanos(d: Duration) -> nat;
pub assume_specification [Duration::from_secs] (secs: u64) -> (r: Duration)
    ensures duration_nanos(r) == secs as nat * 1000000000;
pub assume_specification [Duration::from_millis] (ms: u64) -> (r: Duration)
    ensures duration_nanos(r) == ms as nat * 1000000;
pub assume_specification [Duration::as_secs] (d: &Duration) -> (r: u64)
    ensures r as nat == duration_nanos(*d) / 1000000000;
pub assume_specification [Duration::as_millis] (d: &Duration) -> (r: u128)
    ensures r as nat == duration_nanos(*d) / 1000000;
pub assume_specification [Duration::as_micros] (d: &Duration) -> (r: u128)
    ensures r as nat == duration_nanos(*d) / 1000;
pub assume_specification [Duration::as_nanos] (d: &Duration) -> (r: u128)
    ensures r as nat == duration_nanos(*d);
pub assume_specification [Duration::subsec_millis] (d: &Duration) -> (r: u32)
    ensures r as nat == (duration_nanos(*d) % 1000000000) / 1000000;
pub assume_specification [Duration::subsec_micros] (d: &Duration) -> (r: u32)
    ensures r as nat == (duration_nanos(*d) % 1000000000) / 1000;
pub assume_specification [Duration::subsec_nanos] (d: &Duration) -> (r: u32)
    ensures r as nat == duration_nanos(*d) % 1000000000;
pub assume_specification [Duration::from_micros] (us: u64) -> (r: Duration)
    ensures duration_nanos(r) == us as nat * 1000;
pub assume_specification [Duration::from_nanos] (ns: u64) -> (r: Duration)
    ensures duration_nanos(r) == ns as nat;
// Duration::new(secs, nanos): secs seconds plus nanos nanoseconds (nanos may carry over into seconds)
pub assume_specification [Duration::new] (secs: u64, nanos: u32) -> (r: Duration)
    ensures duration_nanos(r) == secs as nat * 1000000000 + nanos as nat;
// core::cmp::max / min (std): by the type's total order - for Duration that is the order of lengths
pub uninterp spec fn ord_ge<T>(a: T, b: T) -> bool;
pub assume_specification<T: Ord> [core::cmp::max] (a: T, b: T) -> (r: T)
    ensures r == (if ord_ge(b, a) { b } else { a });
pub assume_specification<T: Ord> [core::cmp::min] (a: T, b: T) -> (r: T)
    ensures r == (if ord_ge(b, a) { a } else { b });
pub broadcast axiom fn axiom_duration_order(a: Duration, b: Duration)
    ensures #[trigger] ord_ge(a, b) == (duration_nanos(a) >= duration_nanos(b));
// two durations with the same length are the same value
pub broadcast axiom fn axiom_duration_ext(a: Duration, b: Duration)
    ensures #[trigger] duration_nanos(a) == #[trigger] duration_nanos(b) ==> a == b;
'''


def build(repo):
    u = Unit(NAME, repo)
    u.raw(SPEC, 'units/cch.py')
    u.consts('block_handler/mod.rs')
    u.items('block_handler/mod.rs', 'pub struct BlockHandler<Endpoint: Ord + Clone>', 'pub struct BlockHandlerConfig', 'impl Default for BlockHandlerConfig')
    u.impl_fns('block_handler/mod.rs', 'impl<Endpoint: Ord + Clone> BlockHandler<Endpoint>', ['new'])
    u.assemble()
    u.pub_fields('BlockHandler')
    BH = 'impl<Endpoint: Ord + Clone> BlockHandler<Endpoint>'
    u.contract((BH, 'new'), '''        ensures
            // @clause cache-built-as-configured @props C20
            cache_expiry(r.states) == config.cache_expiry_duration, cache_capacity(r.states) is None,
            r.config.max_total_message_size == config.max_total_message_size, r.config.cache_expiry_duration == config.cache_expiry_duration''', props=PROPS)
    u.contract(('impl Default for BlockHandlerConfig', 'default'), '''        ensures duration_nanos(r.cache_expiry_duration) > 0, r.max_total_message_size >= 28''', props=PROPS)
    for l in ['lemma_retention', 'lemma_expiry', 'lemma_found', 'lemma_reclaim']:
        u.probe(l)
    u.finish(common.HEAD)
    return u
