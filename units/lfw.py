"""Unit `lfw`: the link-format writer (LinkFormatWrite / LinkAttributeWrite) instantiated at a sink
that may fail at ANY write call (once or persistently, possibly after accepting part of the text).
C18: the sticky error makes every failure surface in finish(); nothing is written after a failed
write; what the sink holds is a prefix of the fault-free output; no failure => Ok and complete."""
import re

from vf.unit import Unit
from vf.rustsrc import ExtractError
from . import common

NAME = 'lfw'
PROPS = ['C18']
RLIMIT = 30

HEAD = '''#![allow(unused_imports, dead_code, unused_variables, unused_mut, unused_assignments, non_snake_case)]
use vstd::prelude::*;
verus! {
'''

SPEC = r'''
// ---- R14: the sink.  `T: core::fmt::Write` is instantiated at this type: every write call may
// fail (nondeterministically, so all "fail only call k" / "fail call k and all later ones"
// patterns are covered); a failing call may still have accepted a prefix of its text.
//   text       : what the sink holds
//   failed     : some call has failed
//   after_fail : number of calls issued after the first failure  (C18: must stay 0)
pub struct Sink { pub text: Ghost<Seq<char>>, pub failed: Ghost<bool>, pub after_fail: Ghost<nat> }

pub open spec fn is_prefix(a: Seq<char>, b: Seq<char>) -> bool { a.len() <= b.len() && a == b.subrange(0, a.len() as int) }
pub uninterp spec fn dec_digits(v: u32) -> Seq<char>;     // Display of an integer (std formatting, trusted)

pub open spec fn sink_write(pre: Sink, post: Sink, r: Result<(), core::fmt::Error>, s: Seq<char>) -> bool {
    &&& is_prefix(pre.text@, post.text@) && is_prefix(post.text@, pre.text@ + s)
    &&& (r is Ok ==> post.failed@ == pre.failed@ && post.text@ == pre.text@ + s)
    &&& (r is Err ==> post.failed@)
    &&& (pre.failed@ ==> post.after_fail@ > pre.after_fail@)
    &&& (!pre.failed@ ==> post.after_fail@ == pre.after_fail@)
}
impl Sink {
    #[verifier::external_body]
    pub fn write_str(&mut self, s: &str) -> (r: Result<(), core::fmt::Error>)
        ensures sink_write(*old(self), *final(self), r, s@)
    { unimplemented!() }
    #[verifier::external_body]
    pub fn write_char(&mut self, c: char) -> (r: Result<(), core::fmt::Error>)
        ensures sink_write(*old(self), *final(self), r, seq![c])
    { unimplemented!() }
    // R15: write!(w, "{}", x): a sequence of sink writes spelling Display(x), stopping at the first failure
    #[verifier::external_body]
    pub fn write_display_str(&mut self, s: &str) -> (r: Result<(), core::fmt::Error>)
        ensures sink_write(*old(self), *final(self), r, s@)
    { unimplemented!() }
    #[verifier::external_body]
    pub fn write_display_u32(&mut self, v: u32) -> (r: Result<(), core::fmt::Error>)
        ensures sink_write(*old(self), *final(self), r, dec_digits(v))
    { unimplemented!() }
}
// Result::and / Result::or (std; arguments are evaluated by the caller before the call)
pub assume_specification<T, E, U> [Result::<T, E>::and] (a: Result<T, E>, b: Result<U, E>) -> (r: Result<U, E>)
    where T: core::marker::Destruct, E: core::marker::Destruct, U: core::marker::Destruct
    ensures a is Ok ==> r == b, a is Err ==> r is Err && r->Err_0 == a->Err_0;
// R17: `value.find(|c: char| PRED).is_some()` (str pattern API): is there a character satisfying the closure?
#[verifier::external_body]
fn str_any_char<F: Fn(char) -> bool>(s: &str, f: F) -> (b: bool)
    requires forall|c: char| call_requires(f, (c,)),
    ensures b ==> exists|i: int| 0 <= i < s@.len() && call_ensures(f, (#[trigger] s@[i],), true),
        !b ==> forall|i: int| 0 <= i < s@.len() ==> call_ensures(f, (#[trigger] s@[i],), false),
{ unimplemented!() }

// ---- fault-free output of each writer method: NOT fixed here.  C18 does not say what the writer writes, only
// that it stops at the first failure; the texts out_link / out_key / out_quoted / esc are generated from the
// write calls found in the code (units/lfw.py: derive_blocks), so a change of syntax alone is not a C18 matter.
pub open spec fn esc_all(s: Seq<char>) -> Seq<char>
    decreases s.len()
{ if s.len() == 0 { Seq::empty() } else { esc_all(s.drop_last()) + esc(s.last()) } }
// the writer's step relation: `out` is what the method writes when nothing fails
pub open spec fn step(pre: Sink, pre_err: bool, post: Sink, post_err: bool, out: Seq<char>) -> bool {
    &&& is_prefix(pre.text@, post.text@)
    &&& is_prefix(post.text@, pre.text@ + out)               // never anything but a prefix of the fault-free text
    &&& (!post.failed@ && !pre_err ==> post.text@ == pre.text@ + out && !post_err)   // no failure: complete, no error
    &&& (pre_err ==> post.text@ == pre.text@)                // after an error nothing more is written
    &&& (pre_err ==> post_err)                               // the error is sticky
    &&& (post_err ==> post.failed@ || pre_err)               // and only ever comes from a failed write
    &&& (pre.failed@ ==> post.failed@)
}
// one guarded write block: `if <cond> && error.is_none() { error = sink.write(chunk).err(); }`
//   g_* : state at method entry and the fault-free text `exp` of the blocks executed so far
//   m_* : state before the block, p_* : state after it
proof fn lemma_block(g: Sink, g_err: bool, m: Sink, m_err: bool, p: Sink, p_err: bool, exp: Seq<char>, chunk: Seq<char>, cond: bool)
    requires
        step(g, g_err, m, m_err, exp), m.failed@ ==> m_err,
        // what the block must have done (this is where a missing guard or a lost error shows up)
        (m_err || !cond) ==> p == m && p_err == m_err,
        (!m_err && cond) ==> is_prefix(m.text@, p.text@) && is_prefix(p.text@, m.text@ + chunk) && (!p.failed@ ==> p.text@ == m.text@ + chunk)
            && p_err == p.failed@ && p.after_fail@ == m.after_fail@,
    ensures
        step(g, g_err, p, p_err, exp + (if cond { chunk } else { Seq::<char>::empty() })),
        p.failed@ ==> p_err, p.after_fail@ == m.after_fail@,
{
    let add = if cond { chunk } else { Seq::<char>::empty() };
    assert(g.text@ + (exp + add) =~= (g.text@ + exp) + add);
    if m_err || !cond {
        lemma_prefix_ext(p.text@, g.text@ + exp, add);
        if !cond { assert(exp + add =~= exp); }
    } else {
        // no error before the block: everything so far was written completely
        assert(m.text@ == g.text@ + exp);
        lemma_prefix_trans(g.text@, m.text@, p.text@);
    }
}
// history induction step (C18 over whole documents): the step relations of consecutive writer calls
// compose, so after any sequence of link()/attr*() calls the sink holds a prefix of the fault-free
// document, the whole document if nothing failed, and finish() reports Err iff a write failed
proof fn lemma_step_compose(a: Sink, a_err: bool, b: Sink, b_err: bool, c: Sink, c_err: bool, o1: Seq<char>, o2: Seq<char>)
    requires step(a, a_err, b, b_err, o1), step(b, b_err, c, c_err, o2), b.failed@ ==> b_err
    ensures step(a, a_err, c, c_err, o1 + o2)
{
    assert(a.text@ + (o1 + o2) =~= (a.text@ + o1) + o2);
    lemma_prefix_trans(a.text@, b.text@, c.text@);
    if b_err {
        assert(c.text@ == b.text@);
        lemma_prefix_ext(c.text@, a.text@ + o1, o2);
    } else {
        assert(b.text@ == a.text@ + o1);
    }
}
proof fn lemma_prefix_refl(a: Seq<char>) ensures is_prefix(a, a) { assert(a.subrange(0, a.len() as int) =~= a); }
proof fn lemma_prefix_trans(a: Seq<char>, b: Seq<char>, c: Seq<char>)
    requires is_prefix(a, b), is_prefix(b, c) ensures is_prefix(a, c)
{ assert(a =~= c.subrange(0, a.len() as int)); }
proof fn lemma_prefix_app(a: Seq<char>, b: Seq<char>, c: Seq<char>)
    requires is_prefix(b, c) ensures is_prefix(a + b, a + c), is_prefix(a, a + c)
{ assert((a + b) =~= (a + c).subrange(0, (a + b).len() as int)); assert(a =~= (a + c).subrange(0, a.len() as int)); }
proof fn lemma_prefix_ext(a: Seq<char>, b: Seq<char>, c: Seq<char>)
    requires is_prefix(a, b) ensures is_prefix(a, b + c)
{ assert(a =~= (b + c).subrange(0, a.len() as int)); }
'''

LFW = "impl<'a> LinkFormatWrite<'a>"
LAW = "impl LinkAttributeWrite<'_, '_>"


def desugar_mut_self(u, fnref):
    """R13: `fn f(mut self, ..) -> Self { BODY }` -> `fn f(self, ..) -> Self { let mut this = self; BODY[self := this] }`"""
    s, p, bo, bc = u._fn_span(fnref)
    sig = u.text[p:bo]
    if 'mut self' not in sig:
        raise ExtractError('R13: %s has no `mut self`' % (fnref,))
    body = re.sub(r'\bself\b', 'this', u.text[bo + 1:bc])
    u.text = u.text[:p] + sig.replace('mut self', 'self') + '{ let mut this = self;' + body + u.text[bc:]
    u.rule_hits.append(('R13:mut-self@' + u.fnkey(fnref), 1))


def top_level_ifs(u, src, bo, bc):
    """(start, end) of every statement-level `if` (with its else chain) directly inside the block
    (bo, bc) of the current text."""
    out = []
    i = bo + 1
    depth = 0
    code = src.code
    while i < bc:
        ch = code[i]
        if ch in '{([':
            depth += 1
        elif ch in '})]':
            depth -= 1
        elif depth == 0 and code.startswith('if', i) and not (code[i - 1].isalnum() or code[i - 1] == '_') and not (code[i + 2].isalnum() or code[i + 2] == '_'):
            # statement start?
            j = i - 1
            while code[j].isspace():
                j -= 1
            if code[j] in ';{}':
                # walk the if / else-if / else chain
                k = i
                while True:
                    b = src.body_open(k)
                    e = src.match_close(b)
                    m = re.match(r'\s*else\b', code[e + 1:])
                    if not m:
                        break
                    k = e + 1 + m.end()
                out.append((i, e + 1))
                i = e + 1
                continue
        i += 1
    return out


WRITE_RX = re.compile(r'\.write\s*\.(write_char|write_str|write_display_str|write_display_u32)\(((?:[^()]|\([^()]*\))*)\)')
GUARD_RX = re.compile(r'(?:self|this)(?:\.0)?\.error\.is_none\(\)')


def chunk_of(call, arg):
    arg = arg.strip()
    return {'write_char': 'seq![%s]', 'write_str': '(%s)@', 'write_display_str': '(%s)@', 'write_display_u32': 'dec_digits(%s)'}[call] % arg


def derive_blocks(u, fnref, region=None, skip=0):
    """C18 does not fix WHAT the writer writes, only that it stops at the first failure.  The fault-free
    text of a method is therefore taken from the code itself: for each statement-level guarded write
    `if [COND &&] error.is_none() { error = sink.write_x(ARG).err(); }` the chunk is ARG's text and the
    extra condition COND (e.g. `c == '"' || c == '\\\\'`) says when it belongs to the fault-free output."""
    s, p, bo, bc = u._fn_span(fnref)
    if region == 'loop':
        m = re.search(r'(?<![A-Za-z0-9_])for(?![A-Za-z0-9_])', s.code[bo:bc])
        lbo = s.body_open(bo + m.start())
        bo, bc = lbo, s.match_close(lbo)
    out = []
    for a, b in top_level_ifs(u, s, bo, bc)[skip:]:
        hb = s.body_open(a)
        header = u.text[a + 2:hb]
        body = u.text[hb:b]
        ws = WRITE_RX.findall(body)
        if len(ws) == 0:
            out.append(('Seq::<char>::empty()', 'false'))
            continue
        if len(ws) != 1:
            raise ExtractError('unit lfw: block in %s has %d sink writes, expected 1' % (fnref, len(ws)))
        cond = GUARD_RX.sub('true', header).strip()
        cond = re.sub(r'\s+', ' ', cond)
        out.append((chunk_of(*ws[0]), '(%s)' % cond))
    return out


def annotate_blocks(u, fnref, W, specs, region=None):
    """For the k-th statement-level `if` of the function body (or of the first `for` loop body
    when region='loop'), take a ghost snapshot before it and call lemma_block after it with the
    fault-free text `chunk` this block contributes under condition `cond`."""
    from vf.rustsrc import Src
    for k in range(len(specs) - 1, -1, -1):
        s, p, bo, bc = u._fn_span(fnref)
        if region == 'loop':
            m = re.search(r'(?<![A-Za-z0-9_])for(?![A-Za-z0-9_])', s.code[bo:bc])
            lbo = s.body_open(bo + m.start())
            bo, bc = lbo, s.match_close(lbo)
        ifs = top_level_ifs(u, s, bo, bc)
        if len(ifs) != len(specs):
            raise ExtractError('unit lfw: %s has %d statement-level if blocks, expected %d' % (fnref, len(ifs), len(specs)))
        a, b = ifs[k]
        chunk, cond = specs[k]
        ls = u.text.rfind('\n', 0, a) + 1
        before = '        let ghost snap%d: (Sink, bool) = (*%s.write, %s.error is Some);\n' % (k, W, W)
        after = ('\n        proof { lemma_block(g_pre.0, g_pre.1, snap%d.0, snap%d.1, *%s.write, %s.error is Some, g_exp, %s, %s); g_exp = g_exp + (if %s { %s } else { Seq::<char>::empty() }); }'
                 % (k, k, W, W, chunk, cond, cond, chunk))
        u.text = u.text[:ls] + before + u.text[ls:b] + after + u.text[b:]


def build(repo):
    """Full proof (invariant + prefix relation).  The prefix proof needs one hint per guarded write
    and therefore depends on the block structure of the writer methods; when that structure is
    not the expected one, fall back to the invariant-only contracts (which need no hints): a
    failure there is still a definite violation, a success leaves the prefix clause undecided."""
    try:
        return build_variant(repo, True)
    except ExtractError as e:
        u = build_variant(repo, False)
        u.degraded = 'prefix clause of C18 not decided (writer structure changed: %s); only the sticky-error invariant was checked' % e
        return u


def build_variant(repo, with_step):
    u = Unit(NAME, repo)
    u.prelude('charclass.rs')
    u.raw(SPEC, 'units/lfw.py')
    u.items('link_format.rs', 'const QUOTE_ESCAPE_CHAR', 'const ATTR_SEPARATOR_CHAR', 'const LINK_SEPARATOR_CHAR',
            "pub struct LinkFormatWrite<'a, T: ?Sized>", "impl<'a, T: Write + ?Sized> LinkFormatWrite<'a, T>",
            "pub struct LinkAttributeWrite<'a, 'b, T: ?Sized>", "impl<T: Write + ?Sized> LinkAttributeWrite<'_, '_, T>")
    u.assemble()
    # ---- R14: instantiate T := Sink
    u.rule('R14:struct', r"pub struct LinkFormatWrite<'a, T: \?Sized> \{", "pub struct LinkFormatWrite<'a> {", 1)
    u.rule('R14:field', r"write: &'a mut T,", "pub write: &'a mut Sink,", 1)
    u.rule('R8:fields', r'(?m)^    (is_first: bool,|add_newlines: bool,|error: Option<core::fmt::Error>,)', r'    pub \1', 3)
    u.rule('R14:impl', r"impl<'a, T: Write \+ \?Sized> LinkFormatWrite<'a, T> \{", "impl<'a> LinkFormatWrite<'a> {", 1)
    u.rule('R14:new', r"pub fn new\(write: &'a mut T\) -> LinkFormatWrite<'a, T> \{", "pub fn new(write: &'a mut Sink) -> LinkFormatWrite<'a> {", 1)
    u.rule('R14:attr-type', r"LinkAttributeWrite<'a, 'b, T>", "LinkAttributeWrite<'a, 'b>", 1)
    u.rule('R14:attr-struct', r"pub struct LinkAttributeWrite<'a, 'b, T: \?Sized>\(\s*&'b mut LinkFormatWrite<'a, T>,\s*\);",
           "pub struct LinkAttributeWrite<'a, 'b>(pub &'b mut LinkFormatWrite<'a>);", 1)
    u.rule('R14:attr-impl', r"impl<T: Write \+ \?Sized> LinkAttributeWrite<'_, '_, T> \{", "impl LinkAttributeWrite<'_, '_> {", 1)
    u.rule('derive-drop:Debug', r'#\[derive\(Debug\)\]\n', '', 2)
    u.rule('R8:pub-consts', r'(?m)^const (QUOTE_ESCAPE_CHAR|ATTR_SEPARATOR_CHAR|LINK_SEPARATOR_CHAR)', r'pub const \1', 3)
    # ---- R15 / R16 / R17
    u.rule('R15:write!-str', r'write!\(self\.write, "\{\}", link\)', 'self.write.write_display_str(link)', 1)
    u.rule('R15:write!-u32', r'write!\(self\.0\.write, "\{\}", value\)', 'self.0.write.write_display_u32(value)', 1)
    u.rule('R16:debug_assert', r"debug_assert!\(key\s*\.find\(\|c: char\| c\.is_ascii_whitespace\(\) \|\| c == '='\)\s*\.is_none\(\)\);", '', 1)
    # R17/R38: the quoting decision of attr(): `value.find(|c: char| PRED).is_some()`; PRED (char class methods, !, &&, ||) is
    # translated into the spec predicate attr_quotes(c) and into wrapper calls for the executable closure
    s17, p17, bo17, bc17 = u._fn_span((LAW, 'attr'))
    m17 = re.compile(r'value\s*\.find\(\|(\w+): char\| ((?:[^()]|\((?:[^()]|\([^()]*\))*\))*?)\)\s*\.is_some\(\)').search(u.text, bo17, bc17)
    if not m17:
        raise ExtractError('unit lfw: quoting decision of attr() not of the form value.find(|c: char| PRED).is_some()')
    cvar17, pred = m17.group(1), m17.group(2)
    CLASSES = {'is_ascii': 'is_ascii_char', 'is_ascii_alphanumeric': 'is_ascii_alnum', 'is_ascii_alphabetic': 'is_ascii_alpha', 'is_ascii_digit': 'is_ascii_digit',
               'is_ascii_whitespace': 'is_ascii_ws', 'is_ascii_punctuation': 'is_ascii_punct', 'is_whitespace': 'is_uws', 'is_alphanumeric': 'is_ualnum'}
    def tr(body, spec):
        def one(mm):
            if mm.group(1) != cvar17 or mm.group(2) not in CLASSES:
                raise ExtractError('unit lfw: unsupported call in the quoting predicate: ' + mm.group(0))
            return ('%s(%s)' % (CLASSES[mm.group(2)], cvar17)) if spec else ('char_%s(%s)' % (mm.group(2), cvar17))
        out = re.sub(r'(\w+)\.(\w+)\(\)', one, body)
        if re.search(r'[^\w\s!&|()\'=<>\\,;"]', out):
            raise ExtractError('unit lfw: unsupported token in the quoting predicate: ' + body)
        return out
    pred_spec, pred_exec = tr(pred, True), tr(pred, False)
    u.text = u.text[:m17.start()] + 'str_any_char(value, |%s: char| -> (b: bool) ensures b == attr_quotes(%s) { %s })' % (cvar17, cvar17, pred_exec) + u.text[m17.end():]
    u.rule_hits.append(('R17:str-find-predicate', 1))
    ATTR_QUOTES = 'pub open spec fn attr_quotes(%s: char) -> bool { %s }\npub open spec fn attr_quoted_for(v: Seq<char>) -> bool { exists|i: int| 0 <= i < v.len() && attr_quotes(#[trigger] v[i]) }\n' % (cvar17, pred_spec)
    for fn in ['attr', 'attr_u32', 'attr_quoted']:
        desugar_mut_self(u, (LAW, fn))

    if with_step:
        # ---- the fault-free texts, read off the code ---------------------------------------------------
        EMPTY = 'Seq::<char>::empty()'

        def opt(chunk, cond):
            return chunk if cond == '(true)' else '(if %s { %s } else { %s })' % (cond, chunk, EMPTY)
        s0, p0, bo0, bc0 = u._fn_span((LFW, 'link'))
        first_if = top_level_ifs(u, s0, bo0, bc0)[0]
        sep = WRITE_RX.findall(u.text[first_if[0]:first_if[1]])
        if len(sep) != 2:
            raise ExtractError('unit lfw: the separator block of link() has %d sink writes, expected 2' % len(sep))
        C1, C2 = chunk_of(*sep[0]), chunk_of(*sep[1])
        link_rest = derive_blocks(u, (LFW, 'link'), skip=1)
        key_blocks = derive_blocks(u, (LAW, 'internal_attr_key_eq'))
        u32_blocks = derive_blocks(u, (LAW, 'attr_u32'))
        attr_blocks = derive_blocks(u, (LAW, 'attr'))
        q_blocks = derive_blocks(u, (LAW, 'attr_quoted'))
        q_loop = derive_blocks(u, (LAW, 'attr_quoted'), region='loop')
        if len(link_rest) != 3 or len(key_blocks) != 3 or len(u32_blocks) != 1 or len(attr_blocks) != 2 or len(q_blocks) != 2 or len(q_loop) != 2:
            raise ExtractError('unit lfw: unexpected number of guarded writes in the writer methods')
        sq, pq, boq, bcq = u._fn_span((LAW, 'attr_quoted'))
        cvar = re.search(r'for\s+(\w+)\s+in\s', sq.code[boq:bcq]).group(1)
        gen_spec = '''
    // ---- generated from the write calls of link_format.rs (see derive_blocks) ----
    pub open spec fn out_link(is_first: bool, newlines: bool, link: &str) -> Seq<char> {
        (if is_first { %(E)s } else { %(C1)s + (if newlines { %(C2)s } else { %(E)s }) }) + %(L1)s + %(L2)s + %(L3)s
    }
    pub open spec fn out_key(key: &str) -> Seq<char> { %(K1)s + %(K2)s + %(K3)s }
    pub open spec fn esc(%(c)s: char) -> Seq<char> { %(ESC)s + %(CH)s }
    pub open spec fn out_quoted(key: &str, value: &str) -> Seq<char> { out_key(key) + %(Q1)s + esc_all(value@) + %(Q2)s }
    pub open spec fn out_plain(key: &str, value: &str) -> Seq<char> { out_key(key) + %(P)s }
    pub open spec fn out_u32(key: &str, value: u32) -> Seq<char> { out_key(key) + %(U)s }
    ''' % {'P': opt(*attr_blocks[1]), 'U': opt(*u32_blocks[0]), 'E': EMPTY, 'C1': C1, 'C2': C2, 'L1': opt(*link_rest[0]), 'L2': opt(*link_rest[1]), 'L3': opt(*link_rest[2]),
           'K1': opt(*key_blocks[0]), 'K2': opt(*key_blocks[1]), 'K3': opt(*key_blocks[2]), 'c': cvar,
           'ESC': opt(*q_loop[0]), 'CH': opt(*q_loop[1]), 'Q1': opt(*q_blocks[0]), 'Q2': opt(*q_blocks[1])}
        gen_spec = re.sub(r'\b(self|this)\.(0\.)?', '', gen_spec) + '    // the quoting decision of attr(), translated from its closure\n    ' + ATTR_QUOTES.replace('\n', '\n    ')
        marker = '// <<< code'
        i0 = u.text.index(marker)
        u.text = u.text[:i0] + gen_spec + u.text[i0:]
    else:
        i0 = u.text.index('// <<< code')
        u.text = u.text[:i0] + 'pub open spec fn esc(c: char) -> Seq<char> { seq![c] }   // unused in the invariant-only variant\n' + ATTR_QUOTES + u.text[i0:]
    # ---- invariant and contracts ------------------------------------------------------------
    u.body_start_impl = None
    u.text = u.text.replace("impl<'a> LinkFormatWrite<'a> {", """impl<'a> LinkFormatWrite<'a> {
    // C18 invariant: nothing was written after a failure, and a failure is remembered
    pub open spec fn inv(&self) -> bool { self.write.after_fail@ == 0 && (self.write.failed@ ==> self.error is Some) }
    pub open spec fn err(&self) -> bool { self.error is Some }
""", 1)
    u.contract((LFW, 'new'), '''        requires !old(write).failed@, old(write).after_fail@ == 0
        ensures r.inv(), !r.err(), r.is_first, !r.add_newlines, *r.write == *old(write)''', props=PROPS)
    u.contract((LFW, 'set_add_newlines'), '''        ensures final(self).add_newlines == add_newlines, *final(self).write == *old(self).write, final(self).error == old(self).error, final(self).is_first == old(self).is_first''', props=PROPS)
    u.contract((LFW, 'link'), '''        requires old(self).inv()
        ensures r.0.inv(), !r.0.is_first, r.0.add_newlines == old(self).add_newlines,
            old(self).err() ==> r.0.err(),
            step(*old(self).write, old(self).err(), *r.0.write, r.0.err(), out_link(old(self).is_first, old(self).add_newlines, link))''', props=PROPS)
    u.contract((LFW, 'finish'), '''        requires self.inv()
        ensures old(self.write).failed@ ==> r is Err, (r is Err) == self.err()''', props=PROPS)
    u.contract((LAW, 'internal_attr_key_eq'), '''        requires old(self).0.inv()
        ensures final(self).0.inv(), final(self).0.is_first == old(self).0.is_first, final(self).0.add_newlines == old(self).0.add_newlines,
            old(self).0.err() ==> final(self).0.err(),
            step(*old(self).0.write, old(self).0.err(), *final(self).0.write, final(self).0.err(), out_key(key))''', props=PROPS)
    for fn, out in [('attr', '// the quoted form, or - only for a value in which no character asks for quotes - the plain form (quoting more than necessary is fine)\n            (step(*self.0.write, self.0.err(), *r.0.write, r.0.err(), out_quoted(key, value)) || (!attr_quoted_for(value@) && step(*self.0.write, self.0.err(), *r.0.write, r.0.err(), out_plain(key, value))))'), ('attr_u32', 'step(*self.0.write, self.0.err(), *r.0.write, r.0.err(), out_u32(key, value))'),
                    ('attr_u16', 'step(*self.0.write, self.0.err(), *r.0.write, r.0.err(), out_u32(key, value as u32))'),
                    ('attr_quoted', 'step(*self.0.write, self.0.err(), *r.0.write, r.0.err(), out_quoted(key, value))')]:
        u.contract((LAW, fn), '''        requires self.0.inv()
        ensures r.0.inv(), r.0.is_first == old(self.0).is_first, r.0.add_newlines == old(self.0).add_newlines, old(self.0).err() ==> r.0.err(),
            %s''' % out.replace('*self.0.write', '*old(self.0).write').replace('self.0.err()', 'old(self.0).err()'), props=PROPS)
    u.contract((LAW, 'finish'), '''        requires self.0.inv()
        ensures old(self.0).write.failed@ ==> r is Err, (r is Err) == old(self.0).err(),
            // the document writer lives on: its sticky error and sink are untouched
            final(self.0).error == old(self.0).error, *final(self.0).write == *old(self.0).write,
            final(self.0).is_first == old(self.0).is_first, final(self.0).add_newlines == old(self.0).add_newlines''', props=PROPS)
    if not with_step:
        # drop every step(...) clause, keep the invariant clauses
        u.text = re.sub(r',\s*\n(?:\s*//[^\n]*\n)?\s*\(?step\([^\n]*\)', '', u.text)
        # the only loop of the writer (escaping in attr_quoted) keeps the invariant
        u.body_start((LAW, 'attr_quoted'), '        let ghost g_first = self.0.is_first; let ghost g_newlines = self.0.add_newlines; let ghost g_err = self.0.error is Some;')
        try:
            u.loop((LAW, 'attr_quoted'), 0, '''            invariant
                this.0.inv(), this.0.is_first == g_first, this.0.add_newlines == g_newlines, g_err ==> this.0.error is Some,''')
        except ExtractError:
            pass
        u.finish(HEAD)
        return u
    # ---- proofs of the prefix clause: ghost entry state + one lemma_block per guarded write -----
    def entry(fnref, W):
        u.body_start(fnref, '''        let ghost g_pre: (Sink, bool) = (*%s.write, %s.error is Some);
        let ghost mut g_exp: Seq<char> = Seq::empty();
        proof { lemma_prefix_refl(g_pre.0.text@); assert(g_pre.0.text@ + g_exp =~= g_pre.0.text@); }''' % (W, W))
    # link(): block 0 is the separator (two writes inside), blocks 1..3 are '<', link, '>'
    entry((LFW, 'link'), 'self')
    GC1 = re.sub(r'\b(self|this)\.(0\.)?', '', C1)
    GC2 = re.sub(r'\b(self|this)\.(0\.)?', '', C2)
    annotate_blocks(u, (LFW, 'link'), 'self', [('(if g_pre_newlines { %s + %s } else { %s })' % (GC1, GC2, GC1), '!g_pre_first')] + link_rest)
    u.body_start((LFW, 'link'), '        let ghost g_pre_first = self.is_first; let ghost g_pre_newlines = self.add_newlines;')
    # inside block 0: the newline write comes after the ',' write
    u.before((LFW, 'link'), r'if [^{;]*self\.add_newlines[^{;]*\{', '''                let ghost mid: (Sink, bool) = (*self.write, self.error is Some);''')
    u.at_block_end((LFW, 'link'), r'else if self\.error\.is_none\(\)', '''                proof {
                    let c1 = %s; let c2 = %s;
                    let t0 = snap0.0.text@; let t1 = mid.0.text@; let t2 = self.write.text@;
                    assert(t0 + (c1 + c2) =~= (t0 + c1) + c2);
                    if g_pre_newlines && !mid.1 {
                        assert(t1 == t0 + c1);
                        lemma_prefix_trans(t0, t1, t2);
                    } else if g_pre_newlines {
                        lemma_prefix_ext(t2, t0 + c1, c2);
                    }
                    let chunk = if g_pre_newlines { c1 + c2 } else { c1 };
                    assert(is_prefix(t0, t2));
                    if !g_pre_newlines { assert(t2 == t1); assert(is_prefix(t2, t0 + chunk)); }
                    else if !mid.1 { assert(is_prefix(t2, t1 + c2)); assert(t1 + c2 == t0 + chunk); assert(is_prefix(t2, t0 + chunk)); }
                    else { assert(t2 == t1); assert(is_prefix(t2, (t0 + c1) + c2)); assert(is_prefix(t2, t0 + chunk)); }
                    assert(!self.write.failed@ ==> t2 == t0 + chunk);
                    assert((self.error is Some) == self.write.failed@);
                    assert(self.write.after_fail@ == snap0.0.after_fail@);
                }''' % (GC1, GC2))
    u.body_end((LFW, 'link'), '')
    u.before((LFW, 'link'), r'LinkAttributeWrite\(self\)', '''        proof { assert(g_exp =~= out_link(g_pre_first, g_pre_newlines, link)); }''')
    # internal_attr_key_eq: ';' key '='
    entry((LAW, 'internal_attr_key_eq'), 'self.0')
    annotate_blocks(u, (LAW, 'internal_attr_key_eq'), 'self.0', key_blocks)
    u.body_end((LAW, 'internal_attr_key_eq'), '''        proof { assert(g_exp =~= out_key(key)); }''')
    # attr_u32: key_eq, then the number
    def after_key_eq(fnref):
        u.after(fnref, r'this\.internal_attr_key_eq\(key\);', '        proof { g_exp = out_key(key); }')
    entry((LAW, 'attr_u32'), 'self.0')
    after_key_eq((LAW, 'attr_u32'))
    annotate_blocks(u, (LAW, 'attr_u32'), 'this.0', u32_blocks)
    # attr: either delegated to attr_quoted, or key_eq and the bare value
    entry((LAW, 'attr'), 'self.0')
    after_key_eq((LAW, 'attr'))
    s_, p_, bo_, bc_ = u._fn_span((LAW, 'attr'))
    annotate_blocks(u, (LAW, 'attr'), 'this.0', attr_blocks)
    # attr_quoted: key_eq, '"', escaped characters, '"'
    entry((LAW, 'attr_quoted'), 'self.0')
    after_key_eq((LAW, 'attr_quoted'))
    annotate_blocks(u, (LAW, 'attr_quoted'), 'this.0', q_blocks)
    annotate_blocks(u, (LAW, 'attr_quoted'), 'this.0', q_loop, region='loop')
    Q1 = opt(*q_blocks[0])
    u.loop((LAW, 'attr_quoted'), 0, '''            invariant
                this.0.inv(), this.0.is_first == g_first, this.0.add_newlines == g_newlines,
                it.seq() == value@,
                step(g_pre.0, g_pre.1, *this.0.write, this.0.error is Some, g_exp),
                g_exp == out_key(key) + %s + esc_all(value@.take(it.index() as int)),''' % Q1, iter_name='it')
    u.body_start((LAW, 'attr_quoted'), '        let ghost g_first = self.0.is_first; let ghost g_newlines = self.0.add_newlines;')
    s_, p_, bo_, bc_ = u._fn_span((LAW, 'attr_quoted'))
    u.before((LAW, 'attr_quoted'), r'for \w+ in it: value\.chars\(\)', '''        proof {
            assert(value@.take(0) =~= Seq::<char>::empty());
            assert(g_exp =~= out_key(key) + %s + esc_all(value@.take(0)));
        }''' % Q1)
    # end of the loop body: one more character has been emitted (escaped)
    u.at_block_end((LAW, 'attr_quoted'), r'for %s in it:' % cvar, '''            proof {
                let i = it.index() as int;
                assert(value@.take(i + 1).drop_last() =~= value@.take(i));
                assert(value@.take(i + 1).last() == %s);
                assert(esc_all(value@.take(i + 1)) == esc_all(value@.take(i)) + esc(%s));
                assert(g_exp =~= out_key(key) + %s + esc_all(value@.take(i + 1)));
            }''' % (cvar, cvar, Q1))
    u.before((LAW, 'attr_quoted'), r'let ghost snap1', '''        proof {
            assert(value@.take(value@.len() as int) =~= value@);
            assert(g_exp == out_key(key) + %s + esc_all(value@));
        }''' % Q1, nth=1, count=2)
    u.replace_in((LAW, 'attr_quoted'), 'final-hint', r'\n(\s*)this\s*\}$', r'''
\1proof { assert(g_exp =~= out_quoted(key, value)); }
\1this
    }''')
    u.probe('lemma_step_compose')
    u.probe('lemma_block')
    u.finish(HEAD)
    return u
