"""Unit `enc`: Packet::to_bytes_internal / to_bytes / to_bytes_with_limit / to_bytes_unlimited and
HeaderRaw::serialize_into verified against the RFC 7252 wire image of spec/encwire.rs, including
the exact size-limit clause and the memory-safety preconditions of the three unsafe copy blocks
(C04; encoder half of C01)."""
import re

from vf.unit import Unit
from vf.rustsrc import ExtractError
from . import common

NAME = 'enc'
PROPS = ['C01', 'C02', 'C04']
RLIMIT = 100

TBI = ('impl Packet', 'to_bytes_internal')

STUBS = r'''
// ---- R6: ghost capacity model on top of vstd's Vec (std guarantees, trusted) ----
pub uninterp spec fn cap(v: &Vec<u8>) -> nat;

#[verifier::external_body]
fn vec_with_capacity(n: usize) -> (r: Vec<u8>)
    ensures r@.len() == 0, cap(&r) >= n, cap(&r) <= isize::MAX
{ Vec::with_capacity(n) }

#[verifier::external_body]
fn vec_capacity(v: &Vec<u8>) -> (r: usize)
    ensures r == cap(v)
{ v.capacity() }

// Vec::reserve: contents unchanged, capacity >= len + additional, never above isize::MAX
// (it aborts on capacity overflow / allocation failure instead of returning)
#[verifier::external_body]
fn vec_reserve(v: &mut Vec<u8>, additional: usize)
    ensures final(v)@ == old(v)@, cap(final(v)) >= old(v)@.len() + additional, cap(final(v)) >= cap(old(v)), cap(final(v)) <= isize::MAX
{ v.reserve(additional) }

#[verifier::external_body]
fn vec_extend2(v: &mut Vec<u8>, b: &[u8; 2])
    ensures final(v)@ == old(v)@ + b@
{ v.extend(b) }

#[verifier::external_body]
fn u16_to_be_bytes(x: u16) -> (r: [u8; 2])
    ensures r@.len() == 2, r@[0] == (x / 256) as u8, r@[1] == (x % 256) as u8
{ x.to_be_bytes() }

// ---- R7: the crate's unsafe append idiom.  The PRECONDITION is the memory-safety condition of
//   unsafe { ptr::copy(s1.as_ptr(), d.as_mut_ptr().add(o1), n1); ptr::copy(s2.as_ptr(), d.as_mut_ptr().add(o2), n2); d.set_len(nl) }
// (reads inside the sources, writes and the new length inside the reserved capacity, every byte
// below the new length initialised); the five/eight argument expressions are the ones of /repo.
#[verifier::external_body]
fn raw_copy2_set_len(d: &mut Vec<u8>, s1: &Vec<u8>, o1: usize, n1: usize, s2: &Vec<u8>, o2: usize, n2: usize, nl: usize)
    requires
        n1 <= s1@.len(), // @props C04
        n2 <= s2@.len(), // @props C04
        o1 + n1 <= cap(old(d)), // @props C04
        o2 + n2 <= cap(old(d)), // @props C04
        nl <= cap(old(d)), // @props C04
        o1 == old(d)@.len(), // @props C04
        o2 == o1 + n1, // @props C04
        nl == o2 + n2, // @props C04
    ensures
        final(d)@ == old(d)@ + s1@.subrange(0, n1 as int) + s2@.subrange(0, n2 as int),
        cap(final(d)) == cap(old(d)),
{ unimplemented!() }

#[verifier::external_body]
fn raw_copy1_set_len(d: &mut Vec<u8>, s1: &Vec<u8>, o1: usize, n1: usize, nl: usize)
    requires
        n1 <= s1@.len(), // @props C04
        o1 + n1 <= cap(old(d)), // @props C04
        nl <= cap(old(d)), // @props C04
        o1 == old(d)@.len(), // @props C04
        nl == o1 + n1, // @props C04
    ensures
        final(d)@ == old(d)@ + s1@.subrange(0, n1 as int),
        cap(final(d)) == cap(old(d)),
{ unimplemented!() }

// first byte of an option: delta nibble and length nibble as the code builds it with `|=`
proof fn lemma_hdr_byte(delta: u16, len: usize, byte: u8)
    requires
        byte == (0u8 | (if delta <= 12 { (delta << 4) as u8 } else if delta < 269 { (13u8 << 4) } else { (14u8 << 4) }))
              | (if len <= 12 { len as u8 } else if len < 269 { 13u8 } else { 14u8 }),
    ensures byte as int == nib(delta as int) * 16 + nib(len as int)
{
    assert(forall|x: u8| 0u8 | x == x) by (bit_vector);
    if delta <= 12 {
        if len <= 12 { let l8 = len as u8; assert(delta <= 12 && l8 <= 12 ==> (((delta << 4) as u8) | l8) == (delta * 16 + l8 as u16) as u8) by (bit_vector); }
        else if len < 269 { assert(delta <= 12 ==> (((delta << 4) as u8) | 13u8) == (delta * 16 + 13) as u8) by (bit_vector); }
        else { assert(delta <= 12 ==> (((delta << 4) as u8) | 14u8) == (delta * 16 + 14) as u8) by (bit_vector); }
    } else if delta < 269 {
        if len <= 12 { let l8 = len as u8; assert(l8 <= 12 ==> ((13u8 << 4) | l8) == 208 + l8) by (bit_vector); }
        else if len < 269 { assert(((13u8 << 4) | 13u8) == 221) by (bit_vector); }
        else { assert(((13u8 << 4) | 14u8) == 222) by (bit_vector); }
    } else {
        if len <= 12 { let l8 = len as u8; assert(l8 <= 12 ==> ((14u8 << 4) | l8) == 224 + l8) by (bit_vector); }
        else if len < 269 { assert(((14u8 << 4) | 13u8) == 237) by (bit_vector); }
        else { assert(((14u8 << 4) | 14u8) == 238) by (bit_vector); }
    }
}

'''


def build(repo, udp=False):
    u = Unit(NAME, repo)
    u.prelude('std_stubs.rs', 'views.rs', 'wire.rs', 'encwire.rs')
    u.raw(common.registry.class_spec(), 'spec/registry.py:class_spec')
    u.prelude('pktview.rs')
    u.raw(common.HEADERRAW_TRYFROM_SPEC + STUBS, 'units/enc.py')
    common.header_items(u, serialize=True)
    common.packet_struct(u)
    u.impl_fns('packet.rs', 'impl Packet', ['to_bytes', 'to_bytes_with_limit', 'to_bytes_unlimited', 'to_bytes_internal'],
               extra_members=['pub const MAX_SIZE'])
    u.assemble()
    common.common_rules(u)
    common.header_contracts(u, PROPS)
    u.rule('R12:unreachable', r'_ => unreachable!\(\),', '_ => { unreachable!() }', 1)
    u.contract(('impl Header', 'set_token_length'), '        requires tkl < 16', props=['C01'])
    common.header_bit_hints(u, 'impl Header', fns=('set_token_length', 'get_type'))
    if udp:
        u.rule('cfg:udp', r'#\[cfg\(not\(feature = "udp"\)\)\]\s*pub const MAX_SIZE: usize = [0-9_]+;', '', 1)
        u.rule('cfg:udp2', r'#\[cfg\(feature = "udp"\)\]', '', 1)

    # ---- R7: the three unsafe copy blocks; captured expressions are passed through unchanged
    pat2 = re.compile(r"unsafe \{\s*use core::ptr;\s*let buf_len = (\w+)\.len\(\);\s*ptr::copy\(\s*([\w\.]+)\.as_ptr\(\),\s*(\w+)\.as_mut_ptr\(\)\.add\(([^;]*?)\),\s*([^;]*?),\s*\);\s*ptr::copy\(\s*([\w\.]+)\.as_ptr\(\),\s*(\w+)\s*\.as_mut_ptr\(\)\s*\.add\(([^;]*?)\),\s*([^;]*?),\s*\);\s*(\w+)\s*\.set_len\(\s*([^;]*?),?\s*\);\s*\}", re.S)

    def r2(m):
        d = m.group(1)
        if not (m.group(3) == d and m.group(7) == d and m.group(10) == d):
            raise ExtractError('R7: unsafe block writes to more than one vector')
        return ("{ let buf_len = %s.len(); let o1 = %s; let n1 = %s; let o2 = %s; let n2 = %s; let nl = %s; "
                "raw_copy2_set_len(&mut %s, &%s, o1, n1, &%s, o2, n2, nl); }") % (d, m.group(4), m.group(5), m.group(8), m.group(9), m.group(11), d, m.group(2), m.group(6))
    u.rule('R7:unsafe-copy2', pat2.pattern, r2, 2)
    pat1 = re.compile(r"unsafe \{\s*use core::ptr;\s*let buf_len = (\w+)\.len\(\);\s*ptr::copy\(\s*([\w\.]+)\.as_ptr\(\),\s*(\w+)\.as_mut_ptr\(\)\.add\(([^;]*?)\),\s*([^;]*?),\s*\);\s*(\w+)\.set_len\(\s*([^;]*?),?\s*\);\s*\}", re.S)

    def r1(m):
        d = m.group(1)
        if not (m.group(3) == d and m.group(6) == d):
            raise ExtractError('R7: unsafe block writes to more than one vector')
        return ("{ let buf_len = %s.len(); let o1 = %s; let n1 = %s; let nl = %s; "
                "raw_copy1_set_len(&mut %s, &%s, o1, n1, nl); }") % (d, m.group(4), m.group(5), m.group(7), d, m.group(2))
    u.rule('R7:unsafe-copy1', pat1.pattern, r1, 1)
    u.rule('R7:no-unsafe-left', r'\bunsafe\b', 'unsafe', 0)
    u.rule('R25:closure-wildcard', r'\|_\|', '|_e|', (0, 1))
    # ---- R6: capacity-aware std calls
    u.rule('R6:reserve', r'(\w+)\.reserve\(', r'vec_reserve(&mut \1, ', 3)
    u.rule('R6:with_capacity', r'Vec::with_capacity\(', 'vec_with_capacity(', 2)
    u.rule('R6:capacity', r'buf\.capacity\(\)', 'vec_capacity(buf)', 1)
    u.rule('R6:extend', r'buf\.extend\(&id_bytes\)', 'vec_extend2(buf, &id_bytes)', 1)
    u.rule('R5:to_be_bytes', r'self\.message_id\.to_be_bytes\(\)', 'u16_to_be_bytes(self.message_id)', 1)

    # ---- contracts ----
    u.contract(('impl HeaderRaw', 'serialize_into'), '''        ensures
            cap(old(buf)) >= 4 ==> r is Ok && final(buf)@ == old(buf)@ + seq![self.ver_type_tkl, self.code, (self.message_id / 256) as u8, (self.message_id % 256) as u8],
            cap(old(buf)) < 4 ==> r is Err && final(buf)@ == old(buf)@''', props=PROPS)
    u.contract(('impl Header', 'to_raw'),
               '        ensures r.ver_type_tkl == self.ver_type_tkl, r.code == u8_of_class(self.code), r.message_id == self.message_id', props=PROPS)
    for fn, lim in [('to_bytes', 'Some(Packet::MAX_SIZE)'), ('to_bytes_with_limit', 'Some(limit)'), ('to_bytes_unlimited', 'None')]:
        u.contract(('impl Packet', fn), '        requires enc_pre(*self)\n        ensures enc_post(*self, %s, r)' % lim, props=PROPS)
    u.contract(TBI, '''        requires enc_pre(*self)
        ensures
            // C04: succeeds exactly when the exact wire length is within the limit
            map_encodable(opts_view(self.options)) && r is Ok ==> (limit is None || pkt_wire(*self).len() <= limit->0), // @props C04
            // C01/C02/C04: an encodable message within the limit (or without one) is never refused
            map_encodable(opts_view(self.options)) && (limit is None || pkt_wire(*self).len() <= limit->0) ==> r is Ok, // @props C01 C02 C04
            map_encodable(opts_view(self.options)) && r is Err ==> r->Err_0 == MessageError::InvalidPacketLength, // @props C04
            // C04: a value too long for the 16-bit extended length field is refused
            !map_encodable(opts_view(self.options)) ==> r is Err, // @props C04
            // C01/C02/C04: the output is exactly the RFC 7252 wire image (hence has exactly that length)
            r is Ok ==> r->Ok_0@ == pkt_wire(*self), // @props C01 C02 C04
            enc_post(*self, limit, r), // @props C04''', props=PROPS)

    # ---- proof of to_bytes_internal ----
    u.body_start(TBI, '''        broadcast use vstd::std_specs::btree::group_btree_axioms;
        broadcast use vstd::std_specs::btree::axiom_increasing_seq_meaning;
        let ghost view = opts_view(self.options);
        let ghost mut acc: Seq<Opt> = Seq::empty();
        let ghost mut lo: int = 0;
        proof { lemma_flat_prev(view, 0); }''')
    u.loop(TBI, 0, '''            invariant
                view == opts_view(self.options),
                increasing_seq(it.seq().map_values(|p: (&u16, &VecDeque<Vec<u8>>)| *p.0)),
                forall|i: int| 0 <= i < it.seq().len() ==> self.options@.contains_key(*(#[trigger] it.seq()[i]).0) && self.options@[*it.seq()[i].0] == *it.seq()[i].1,
                forall|k: u16| #![trigger self.options@.contains_key(k)] self.options@.contains_key(k) && k >= lo ==> exists|i: int| it.index() <= i < it.seq().len() && *(#[trigger] it.seq()[i]).0 == k,
                forall|i: int| it.index() <= i < it.seq().len() ==> *(#[trigger] it.seq()[i]).0 >= lo,
                0 <= lo <= 65536,
                acc == flat_map(view, lo),
                encodable(acc),
                options_bytes@ == wire_opts_r(acc),
                options_delta_length as int == prev_num(acc),
                prev_num(acc) < lo || (lo == 0 && prev_num(acc) == 0),
                options_bytes@.len() <= isize::MAX,''', iter_name='it')
    u.loop(TBI, 1, '''                invariant
                    view == opts_view(self.options),
                    it2.seq().len() == value_list@.len(),
                    forall|j: int| 0 <= j < it2.seq().len() ==> *(#[trigger] it2.seq()[j]) == value_list@[j],
                    base == flat_map(view, *number as int),
                    view.contains_key(*number) && view[*number] == vals_view(*value_list),
                    acc == base + tagged(*number, vals_view(*value_list).take(it2.index())),
                    encodable(acc),
                    options_bytes@ == wire_opts_r(acc),
                    options_delta_length as int == prev_num(acc),
                    options_delta_length <= *number,
                    options_bytes@.len() <= isize::MAX,''', iter_name='it2')
    # outer body, before the inner loop: move acc from flat_map(view, lo) to flat_map(view, number)
    u.before(TBI, r'for value in', '''            let ghost base = flat_map(view, *number as int);
            proof {
                let ks = it.seq().map_values(|p: (&u16, &VecDeque<Vec<u8>>)| *p.0);
                assert(ks[it.index()] == *number);
                assert(*it.seq()[it.index()].0 >= lo);
                assert forall|k: u16| lo <= k < *number implies !view.contains_key(k) by {
                    reveal(opts_view);
                    if self.options@.contains_key(k) {
                        let i = choose|i: int| it.index() <= i < it.seq().len() && *(#[trigger] it.seq()[i]).0 == k;
                        if i > it.index() { assert(ks[it.index()].cmp_spec(&ks[i]) == core::cmp::Ordering::Less); }
                    }
                }
                lemma_gap(view, lo, *number as int);
                assert(view.contains_key(*number) && view[*number] == vals_view(*value_list)) by { reveal(opts_view); }
                assert(vals_view(*value_list).take(0) =~= Seq::<Seq<u8>>::empty());
                assert(tagged(*number, vals_view(*value_list).take(0)) =~= Seq::<Opt>::empty());
                assert(base + tagged(*number, vals_view(*value_list).take(0)) =~= base);
            }''')
    # inner body
    u.before(TBI, r'let mut header: Vec<u8>', '''                let ghost cur = acc;
                let ghost j0 = it2.index();
                proof { assert(*value == value_list@[j0]); }''')
    u.after(TBI, r'header\.push\(byte\);', '                proof { lemma_hdr_byte(delta, value.len(), byte); }')
    u.after(TBI, r'let fix = delta - (\w+);', '                    proof { lemma_split16(fix); }')
    u.after(TBI, r'let fix = [^;]*value\.len\(\)[^;]*;',
            '                    proof { lemma_split16(fix); }')
    u.at_block_end(TBI, r'for value in it2:', '''                proof {
                    assert(header@ =~= opt_hdr(delta as int, value@.len() as int));
                    lemma_wire_push(cur, (*number, value@));
                    let vv = vals_view(*value_list);
                    assert(vv[j0] == value@);
                    assert(vv.take(j0 + 1) =~= vv.take(j0).push(vv[j0]));
                    assert(tagged(*number, vv.take(j0 + 1)) =~= tagged(*number, vv.take(j0)).push((*number, value@)));
                    assert(base + tagged(*number, vv.take(j0 + 1)) =~= cur.push((*number, value@)));
                    acc = cur.push((*number, value@));
                    assert(encodable(acc)) by {
                        assert forall|i: int| 0 <= i < acc.len() implies (#[trigger] acc[i]).1.len() <= 65804 by {
                            if i < cur.len() { assert(acc[i] == cur[i]); }
                        }
                    }
                }''')
    # early return for an over-long value: the map is then not encodable
    u.before(TBI, r'let fix = [^;]*value\.len\(\)[^;]*;', '''                    proof {
                        if value.len() - 269 > 65535 {
                            reveal(opts_view);
                            let vv = vals_view(*value_list);
                            assert(vv[j0].len() > 65804);
                            assert(view[*number][j0].len() > 65804);
                            assert(!map_encodable(view));
                        }
                    }''')
    # after the inner loop (end of the outer body): acc == flat_map(view, number + 1)
    u.at_block_end(TBI, r'for \(number, value_list\) in it:', '''            proof {
                let vv = vals_view(*value_list);
                assert(vv.take(vv.len() as int) =~= vv);
                reveal(opts_view);
                assert(view.contains_key(*number) && view[*number] == vv);
                assert(flat_map(view, *number + 1) == base + tagged(*number, vv));
                lo = *number + 1;
                lemma_flat_prev(view, lo);
                let ks = it.seq().map_values(|p: (&u16, &VecDeque<Vec<u8>>)| *p.0);
                assert forall|i: int| it.index() + 1 <= i < it.seq().len() implies *(#[trigger] it.seq()[i]).0 >= lo by {
                    assert(ks[it.index()].cmp_spec(&ks[i]) == core::cmp::Ordering::Less);
                }
                assert forall|k: u16| self.options@.contains_key(k) && k >= lo implies exists|i: int| it.index() + 1 <= i < it.seq().len() && *(#[trigger] it.seq()[i]).0 == k by {
                    let i = choose|i: int| it.index() <= i < it.seq().len() && *(#[trigger] it.seq()[i]).0 == k;
                    assert(i != it.index());
                }
            }''')
    # after the outer loop
    u.before(TBI, r'let mut buf_length = ', '''        proof {
            assert forall|k: u16| lo <= k < 65536 implies !view.contains_key(k) by { reveal(opts_view); }
            lemma_gap(view, lo, 65536);
            assert(acc == pkt_opts(*self));
            assert(map_encodable(view)) by {
                reveal(opts_view);
                assert forall|k: u16, i: int| view.contains_key(k) && 0 <= i < view[k].len() implies (#[trigger] view[k][i]).len() <= 65804 by {
                    lemma_flat_contains(view, 65536, k, i);
                }
            }
            assert(self.header.code != MessageClass::Empty <==> u8_of_class(self.header.code) != 0);
        }''')
    u.before(TBI, r'if [^{;]*\blimit\b[^{;]*\{', '''        proof {
            let h = seq![self.header.ver_type_tkl, u8_of_class(self.header.code), (self.header.message_id / 256) as u8, (self.header.message_id % 256) as u8];
            assert(h.len() == 4);
            let tail = if u8_of_class(self.header.code) != 0 && self.payload@.len() > 0 { seq![0xFFu8] + self.payload@ } else { Seq::<u8>::empty() };
            assert(pkt_wire(*self) == h + self.token@ + wire_opts_r(pkt_opts(*self)) + tail);
            assert(options_bytes@.len() == wire_opts_r(pkt_opts(*self)).len());
            assert(buf_length == pkt_wire(*self).len()); // @props C04
        }''')
    u.before(TBI, r'Ok\(buf\)', '''                proof {
                    assert(self.token@.subrange(0, self.token@.len() as int) =~= self.token@);
                    assert(options_bytes@.subrange(0, options_bytes@.len() as int) =~= options_bytes@);
                    assert(self.payload@.subrange(0, self.payload@.len() as int) =~= self.payload@);
                    let h = seq![self.header.ver_type_tkl, u8_of_class(self.header.code), (self.header.message_id / 256) as u8, (self.header.message_id % 256) as u8];
                    let tail = if u8_of_class(self.header.code) != 0 && self.payload@.len() > 0 { seq![0xFFu8] + self.payload@ } else { Seq::<u8>::empty() };
                    assert(pkt_wire(*self) == h + self.token@ + wire_opts_r(pkt_opts(*self)) + tail);
                    if u8_of_class(self.header.code) != 0 && self.payload@.len() > 0 {
                        assert(buf@ =~= h + self.token@ + options_bytes@ + (seq![0xFFu8] + self.payload@));
                    } else {
                        assert(buf@ =~= h + self.token@ + options_bytes@ + Seq::<u8>::empty());
                    }
                    assert(buf@ =~= pkt_wire(*self));
                }''')
    u.raw_late = None
    u.finish(common.HEAD)
    return u
