"""Unit `gpv`: CoapRequest::get_path_as_vec (C12: what the cache key stores as path; C19: the path accessor), on top of unit
lst (get_options_as, OptionValueString).  Proved: Ok(the Uri-Path values decoded as text, in order) if every value is valid
UTF-8, Err otherwise - the contract that unit key assumes.

`into_iter().map(f).collect::<Result<Vec<_>, _>>()` is read as a try-map-and-collect wrapper with the real closures (R33b:
Ok of all results in order iff all are Ok); Option::map_or_else carries an assumed std contract."""
from vf.unit import Unit
from . import common, lst

NAME = 'gpv'
PROPS = ['C12', 'C19']
RLIMIT = 40

SPEC = r'''
pub assume_specification<T, U, D: FnOnce() -> U, F: FnOnce(T) -> U> [Option::<T>::map_or_else] (o: Option<T>, default: D, f: F) -> (r: U)
    where T: core::marker::Destruct, U: core::marker::Destruct, D: core::marker::Destruct, F: core::marker::Destruct
    requires o is None ==> call_requires(default, ()), o is Some ==> call_requires(f, (o->0,)),
    ensures o is None ==> call_ensures(default, (), r), o is Some ==> call_ensures(f, (o->0,), r);
// R33b: `l.into_iter().map(f).collect::<Result<Vec<_>, _>>()`; ok / val describe f (when it succeeds, with what) - a proof
// obligation at the call (requires), so that the result can be stated without quantifying over f's outputs
#[verifier::external_body]
pub fn deque_try_map_collect<A, B, E, F: Fn(A) -> Result<B, E>>(l: VecDeque<A>, f: F, ok: Ghost<spec_fn(A) -> bool>, val: Ghost<spec_fn(A) -> B>) -> (r: Result<Vec<B>, E>)
    requires forall|x: A| call_requires(f, (x,)),
        forall|x: A, y: Result<B, E>| call_ensures(f, (x,), y) ==> (y is Ok) == ok@(x) && (y is Ok ==> y->Ok_0 == val@(x)),
    ensures (r is Ok) == (forall|i: int| 0 <= i < l@.len() ==> ok@(#[trigger] l@[i])),
        r is Ok ==> r->Ok_0@.len() == l@.len() && forall|i: int| 0 <= i < l@.len() ==> r->Ok_0@[i] == val@(#[trigger] l@[i]),
{ unimplemented!() }
pub open spec fn uri_path(p: Packet) -> Seq<Seq<u8>> { if opts_view(p.options).contains_key(11) { opts_view(p.options)[11] } else { Seq::empty() } }
pub open spec fn path_valid(p: Packet) -> bool { forall|i: int| 0 <= i < uri_path(p).len() ==> utf8_text(#[trigger] uri_path(p)[i]) is Some }
pub open spec fn path_segs(p: Packet) -> Seq<Seq<char>> { Seq::new(uri_path(p).len(), |i: int| utf8_text(uri_path(p)[i]).unwrap()) }
pub open spec fn strs(v: Vec<String>) -> Seq<Seq<char>> { Seq::new(v@.len(), |i: int| v@[i]@) }
pub use ResponseType as Status;
pub use RequestType as Method;
'''

IOVF = 'IncompatibleOptionValueFormat'


def build(repo):
    def more_items(u):
        u.item('response.rs', 'pub struct CoapResponse')
        u.item('request.rs', 'pub struct CoapRequest<Endpoint>')
        u.impl_fns('request.rs', 'impl<Endpoint> CoapRequest<Endpoint>', ['get_path_as_vec'])
    u = lst.build(repo, name=NAME, more_items=more_items, more_spec=SPEC, finish=False)
    u.rule('derive-drop:Debug/Clone on CoapRequest', r'#\[derive\(Clone, Debug, PartialEq\)\]\s*pub struct (CoapRequest<Endpoint>|CoapResponse)', r'pub struct \1', 2)
    u.pub_fields('CoapRequest')
    GV = ('impl<Endpoint> CoapRequest<Endpoint>', 'get_path_as_vec')
    u.replace_in(GV, 'R18:closure-contract-default', r'\|\| Ok\(vec!\[\]\)',
                 '|| -> (o: Result<Vec<String>, %s>) ensures o is Ok && o->Ok_0@.len() == 0 { Ok(Vec::new()) }' % IOVF)
    u.replace_in(GV, 'R33b:try-map-collect', r'paths\s*\.into_iter\(\)\s*\.map\(\|segment_result\| \{\s*segment_result\.map\(\|segment\| segment\.0\)\s*\}\)\s*\.collect::<Result<Vec<_>, _>>\(\)',
                 '''deque_try_map_collect(paths, |segment_result: Result<OptionValueString, %(E)s>| -> (x: Result<String, %(E)s>)
                            ensures segment_result is Ok ==> x is Ok && x->Ok_0 == segment_result->Ok_0.0, segment_result is Err ==> x is Err
                        { segment_result.map(|segment: OptionValueString| -> (y: String) ensures y == segment.0 { segment.0 }) },
                        Ghost(|sr: Result<OptionValueString, %(E)s>| sr is Ok), Ghost(|sr: Result<OptionValueString, %(E)s>| sr->Ok_0.0))''' % {'E': IOVF})
    u.replace_in(GV, 'R18:closure-contract-paths', r'\|paths\| \{',
                 '''|paths: VecDeque<Result<OptionValueString, %(E)s>>| -> (o: Result<Vec<String>, %(E)s>)
                    ensures (o is Ok) == (forall|i: int| 0 <= i < paths@.len() ==> (#[trigger] paths@[i]) is Ok),
                        o is Ok ==> o->Ok_0@.len() == paths@.len() && forall|i: int| 0 <= i < paths@.len() ==> o->Ok_0@[i] == (#[trigger] paths@[i])->Ok_0.0
                {''' % {'E': IOVF})
    u.replace_in(GV, 'R41:bind-receiver-and-result', r'self\s*\.message\s*\.get_options_as::<OptionValueString>\((CoapOption::\w+)\)\s*\.map_or_else\(',
                 r'''let paths_opt_ = self.message.get_options_as::<OptionValueString>(\1);
        let ghost po = paths_opt_;
        let res_ = paths_opt_.map_or_else(''')
    u.body_end(GV, '''; proof {
            let v = uri_path(self.message);
            match po {
                None => { assert(!opts_view(self.message.options).contains_key(11)); assert(v.len() == 0); assert(res_ is Ok); assert(res_->Ok_0@.len() == 0); assert(strs(res_->Ok_0) =~= path_segs(self.message)); }
                Some(paths) => {
                    assert(opts_view(self.message.options).contains_key(11));
                    assert(paths@.len() == v.len());
                    assert forall|i: int| 0 <= i < v.len() implies ((#[trigger] paths@[i]) is Ok) == (utf8_text(v[i]) is Some)
                        && (paths@[i] is Ok ==> paths@[i]->Ok_0.0@ == utf8_text(v[i])->0) by {
                        let c = choose|c: Vec<u8>| #[trigger] c@ == v[i] && call_ensures(<OptionValueString as TryFrom<Vec<u8>>>::try_from, (c,), paths@[i]);
                    }
                    if path_valid(self.message) {
                        assert forall|i: int| 0 <= i < paths@.len() implies (#[trigger] paths@[i]) is Ok by { assert(utf8_text(uri_path(self.message)[i]) is Some); }
                        assert(res_ is Ok);
                        assert(res_->Ok_0@.len() == v.len());
                        assert forall|i: int| 0 <= i < v.len() implies (#[trigger] res_->Ok_0@[i])@ == utf8_text(v[i])->0 by {
                            assert(res_->Ok_0@[i] == paths@[i]->Ok_0.0);
                        }
                        assert(strs(res_->Ok_0) =~= path_segs(self.message));
                    } else {
                        let i = choose|i: int| 0 <= i < v.len() && !(utf8_text(#[trigger] v[i]) is Some);
                        assert(paths@[i] is Err);
                    }
                }
            }
        }
        res_''')
    u.contract(GV, '''        ensures
            // @clause path-as-text-segments @props C12 C19
            path_valid(self.message) ==> r is Ok && strs(r->Ok_0) == path_segs(self.message),
            !path_valid(self.message) ==> r is Err''', props=PROPS)
    u.finish(common.HEAD)
    return u
