"""Unit `cmv2`: the same views for coap-message 0.2 (src/impl_coap_message.rs); see unit cmv."""
from . import cmv

NAME = 'cmv2'
PROPS = ['C19']
RLIMIT = 40


def build(repo):
    return cmv.build(repo, file='impl_coap_message.rs', name=NAME)
