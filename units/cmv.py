"""Unit `cmv`: the generic coap-message view of a Packet (C19: the trait view reads and writes the
same message state as the raw API; options are presented in ascending number order).

From src/impl_coap_message_0_3.rs (and, as unit cmv2, src/impl_coap_message.rs for coap-message
0.2): the option iterator `MessageOptionAdapter::next`, `MessageOption::{number,value}` and the
Packet methods of `ReadableMessage` / `MinimalWritableMessage` (`code`, `payload`, `options`,
`set_code`, `add_option`, `set_payload`), on top of the accessor layer of unit `acc`.

The traits themselves live in an external crate that a single-file Verus run cannot link: each
`impl Trait for Packet { .. }` block is read as an inherent impl with the methods renamed `cm_*`
(rule R39; bodies verbatim, associated types replaced by the types the impl assigns to them).
The crate's generic copy routine (`set_from_message`, external code) is therefore not verified;
what is proved is what it relies on: the views."""
import re

from vf.unit import Unit
from vf.rustsrc import ExtractError
from . import common, acc

NAME = 'cmv'
PROPS = ['C19']
RLIMIT = 40
FILE = 'impl_coap_message_0_3.rs'

SPEC = r'''
use vstd::std_specs::iter::IteratorSpec;
// (number, value) pairs still to be yielded: the rest of the current option's values, then every value of the
// remaining map entries in iteration (= ascending key) order
pub open spec fn tag_refs(n: u16, s: Seq<&Vec<u8>>) -> Seq<(u16, Seq<u8>)> { Seq::new(s.len(), |i: int| (n, s[i]@)) }
pub open spec fn entry_vals(e: (&u16, &VecDeque<Vec<u8>>)) -> Seq<(u16, Seq<u8>)> { Seq::new(e.1@.len(), |i: int| (*e.0, e.1@[i]@)) }
pub open spec fn flat_entries(e: Seq<(&u16, &VecDeque<Vec<u8>>)>) -> Seq<(u16, Seq<u8>)>
    decreases e.len()
{ if e.len() == 0 { Seq::empty() } else { entry_vals(e[0]) + flat_entries(e.skip(1)) } }
#[verifier::prophetic]
pub open spec fn pending<'a>(a: MessageOptionAdapter<'a>) -> Seq<(u16, Seq<u8>)> {
    (match a.head { Some(h) => tag_refs(h.0, h.1.remaining()), None => Seq::empty() }) + flat_entries(a.raw_iter.remaining())
}
#[verifier::prophetic]
pub open spec fn adapter_ok<'a>(a: MessageOptionAdapter<'a>) -> bool {
    &&& a.raw_iter.obeys_prophetic_iter_laws() && a.raw_iter.decrease() is Some
    &&& (match a.head { Some(h) => h.1.obeys_prophetic_iter_laws() && h.1.decrease() is Some, None => true })
}
// &[u8] -> Vec<u8> (`.into()`): a copy
#[verifier::external_body]
pub fn slice_into_vec(s: &[u8]) -> (r: Vec<u8>) ensures r@ == s@ { unimplemented!() }
'''


def build(repo, file=FILE, name=NAME):
    u = Unit(name, repo)

    def extra_items(u):
        u.items(file, "pub struct MessageOptionAdapter<'a>", "pub struct MessageOption<'a>", "impl<'a> Iterator for MessageOptionAdapter<'a>",
                "impl coap_message::MessageOption for MessageOption<'_>", 'impl ReadableMessage for Packet', 'impl MinimalWritableMessage for Packet')
        u.impl_fns(file, 'impl MutableWritableMessage for Packet', ['available_space', 'payload_mut_with_len', 'truncate'])
    acc.populate(u, extra_items=extra_items, extra_spec=SPEC)
    # ---- R39: trait impls read as inherent impls
    u.rule('R39:impl-Iterator', r"impl<'a> Iterator for MessageOptionAdapter<'a> \{\s*type Item = MessageOption<'a>;", "impl<'a> MessageOptionAdapter<'a> {", 1)
    u.rule('R39:Iterator::Item', r'<Self as Iterator>::Item', "MessageOption<'a>", 1)
    u.rule('R39:impl-MessageOption', r"impl coap_message::MessageOption for MessageOption<'_> \{", "impl MessageOption<'_> {", 1)
    u.rule('R39:impl-Readable', r'impl ReadableMessage for Packet \{', 'impl Packet {', 1)
    u.rule('R39:impl-Writable', r'impl MinimalWritableMessage for Packet \{', 'impl Packet {', 1)
    u.rule('R39:impl-Mutable', r'impl MutableWritableMessage for Packet \{', 'impl Packet {', 1)
    u.rule('R39:assoc-types', r"(?m)^\s*type (?:Code|OptionNumber|AddOptionError|SetPayloadError|UnionError|MessageOption<'a>|OptionsIter<'a>) = [^;]*;\n", '', (4, 8))
    u.rule('R39:Self::Code', r'Self::Code', 'MessageClass', (2, 2))
    u.rule('R39:Self::OptionsIter', r"Self::OptionsIter<'_>", "MessageOptionAdapter<'_>", 1)
    u.rule('R39:Self::OptionNumber', r'Self::OptionNumber', 'CoapOption', (1, 2))
    u.rule('R39:Self::Errors', r'Self::(?:AddOptionError|SetPayloadError)', 'core::convert::Infallible', (0, 4))
    u.rule('R39:method-names', r'(?m)^(\s*)fn (code|payload|options|set_code|add_option|set_payload|number|value|available_space|payload_mut_with_len|truncate)\(', r'\1pub fn cm_\2(', 11)
    u.rule('R1:linked_list-paths', r'alloc::collections::linked_list::(?:Iter|LinkedList|VecDeque)', lambda m: 'std::collections::vec_deque::Iter' if m.group(0).endswith('Iter') else 'VecDeque', 2)
    u.rule('R0:alloc-path', r'alloc::collections::btree_map::Iter', 'std::collections::btree_map::Iter', 1)
    u.rule('R5:slice-into', r'(?<![\w.])(data|payload)\.into\(\)', r'slice_into_vec(\1)', 2)
    u.pub_fields('MessageOptionAdapter')
    u.pub_fields('MessageOption')
    NX = ("impl<'a> MessageOptionAdapter<'a>", 'next')
    P = 'impl Packet'
    u.contract(NX, '''        requires adapter_ok(*old(self))
        ensures adapter_ok(*final(self)), ({
            let p = pending(*old(self));
            // @clause options-in-order @props C19
            &&& (p.len() == 0 ==> r is None && pending(*final(self)) == p)
            &&& (p.len() > 0 ==> r is Some && r->0.number == p[0].0 && r->0.value@ == p[0].1 && pending(*final(self)) == p.skip(1))
        })''', props=PROPS)
    try:
        u.loop(NX, 0, '''            invariant adapter_ok(*self), pending(*self) == pending(*old(self)),
            decreases self.raw_iter.decrease()->0''')
    except ExtractError:
        pass   # no loop in next(): the contract alone decides
    u.contract(("impl MessageOption<'_>", 'cm_number'), '        ensures r == self.number', props=PROPS)
    u.contract(("impl MessageOption<'_>", 'cm_value'), '        ensures r@ == self.value@', props=PROPS)
    u.contract((P, 'cm_code'), '        ensures r == self.header.code', props=PROPS)
    u.contract((P, 'cm_payload'), '        ensures r@ == self.payload@', props=PROPS)
    u.contract((P, 'cm_set_code'), '''        ensures final(self).header.code == code, final(self).header.ver_type_tkl == old(self).header.ver_type_tkl, final(self).header.message_id == old(self).header.message_id,
            final(self).token == old(self).token, final(self).options == old(self).options, final(self).payload == old(self).payload''', props=PROPS)
    u.contract((P, 'cm_set_payload'), '''        ensures final(self).payload@ == payload@, final(self).header == old(self).header, final(self).token == old(self).token, final(self).options == old(self).options''', props=PROPS)
    u.contract((P, 'cm_add_option'), '''        ensures opts_view(final(self).options) == push_opt(opts_view(old(self).options), u16_of_option(option), data@),
            same_but_options(*final(self), *old(self))''', props=PROPS)
    u.contract((P, 'cm_truncate'), '''        ensures final(self).payload@ == (if length <= old(self).payload@.len() { old(self).payload@.take(length as int) } else { old(self).payload@ }),
            final(self).header == old(self).header, final(self).token == old(self).token, final(self).options == old(self).options''', props=PROPS)
    u.contract((P, 'cm_options'), '''        ensures adapter_ok(r), r.head is None,
            // every value of every option, grouped by number in ascending number order, values in their stored order
            pending(r) == flat_entries(r.raw_iter.remaining()),
            increasing_seq(r.raw_iter.remaining().map_values(|p: (&u16, &VecDeque<Vec<u8>>)| *p.0)),
            forall|i: int| 0 <= i < r.raw_iter.remaining().len() ==> self.options@.contains_key(*(#[trigger] r.raw_iter.remaining()[i]).0) && self.options@[*r.raw_iter.remaining()[i].0] == *r.raw_iter.remaining()[i].1,
            forall|k: u16| #![trigger self.options@.contains_key(k)] self.options@.contains_key(k) ==> exists|i: int| 0 <= i < r.raw_iter.remaining().len() && *(#[trigger] r.raw_iter.remaining()[i]).0 == k''', props=PROPS)
    u.body_start((P, 'cm_options'), '        broadcast use vstd::std_specs::btree::group_btree_axioms;')
    u.finish(common.HEAD)
    return u
