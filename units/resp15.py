"""Unit `resp15`: the part of unit resp that C15 depends on (create_notification on top of the accessor layer)."""
from . import resp

NAME = 'resp15'
PROPS = ['C15']
RLIMIT = 30


def build(repo):
    return resp.build(repo, variant='resp15')
