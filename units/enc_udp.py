"""Unit `enc_udp`: unit enc built for the `udp` feature (Packet::MAX_SIZE = 64000); thorough tier."""
from . import enc

NAME = 'enc_udp'
PROPS = enc.PROPS
RLIMIT = enc.RLIMIT


def build(repo):
    u = enc.build(repo, udp=True)
    u.name = NAME
    return u
