"""Unit `obs`: the observe registry (Subject::{register, deregister, resource_changed, acknowledge})
read verbatim, with whole-view postconditions taken from C14/C15.  The std higher-order functions
the code is written with (entry/or_insert/and_modify, position, for_each, retain, find) carry
assumed closure-parametric contracts (DESIGN.md A.3); closure literals get spliced contracts (R18)."""
import re

from vf.unit import Unit
from vf.rustsrc import ExtractError
from . import common

NAME = 'obs'
PROPS = ['C14', 'C15']
RLIMIT = 60

HEAD = '''#![feature(allocator_api)]
#![allow(unused_imports, dead_code, unused_variables, unused_mut, unused_assignments, non_snake_case, unused_macros)]
use vstd::prelude::*;
use vstd::std_specs::iter::IteratorSpec;
use vstd::std_specs::cmp::*;
use std::collections::BTreeMap;
use std::collections::btree_map::Entry;
use core::marker::PhantomData;
use core::fmt::Display;
verus! {
'''

SPEC = r'''
type ResourcePath = String;
pub assume_specification<T: Clone> [<[T]>::to_vec] (s: &[T]) -> (r: Vec<T>)
    ensures r@ == s@;

// ---- the parts of a request the registry reads (request.rs / packet.rs are verified in other
// units; here they are abstract): endpoint, URI path string, token, message id
pub struct Header { pub message_id: u16 }
pub struct Packet { pub header: Header, pub token: Vec<u8> }
impl Packet {
    pub fn get_token(&self) -> (r: &[u8]) ensures r@ == self.token@ { &self.token }
}
pub struct CoapRequest<Endpoint> { pub source: Option<Endpoint>, pub message: Packet, pub path: String }
impl<Endpoint> CoapRequest<Endpoint> {
    // C19's get_path is not verified (str join); the registry only needs that it is a function of the request
    #[verifier::external_body]
    pub fn get_path(&self) -> (r: String) ensures r == self.path { unimplemented!() }
}

// ---- assumed, closure-parametric contracts of std (DESIGN.md A.3) ----
#[verifier::external_type_specification]
#[verifier::external_body]
#[verifier::reject_recursive_types(K)]
#[verifier::reject_recursive_types(V)]
#[verifier::reject_recursive_types(A)]
pub struct ExEntry<'a, K: 'a, V: 'a, A: core::alloc::Allocator + Clone>(Entry<'a, K, V, A>);
pub uninterp spec fn entry_old<'a, K, V, A: core::alloc::Allocator + Clone>(e: Entry<'a, K, V, A>) -> Map<K, V>;
pub uninterp spec fn entry_key<'a, K, V, A: core::alloc::Allocator + Clone>(e: Entry<'a, K, V, A>) -> K;
pub uninterp spec fn entry_fin<'a, K, V, A: core::alloc::Allocator + Clone>(e: Entry<'a, K, V, A>) -> Map<K, V>;
pub broadcast axiom fn axiom_entry_resolved<'a, K, V, A: core::alloc::Allocator + Clone>(e: Entry<'a, K, V, A>)
    ensures #[trigger] has_resolved(e) ==> entry_fin(e) == entry_old(e);
pub assume_specification<K: Ord, V, A: core::alloc::Allocator + Clone> [BTreeMap::<K, V, A>::entry] (m: &mut BTreeMap<K, V, A>, k: K) -> (e: Entry<'_, K, V, A>)
    ensures entry_old(e) == old(m)@, entry_key(e) == k, entry_fin(e) == final(m)@;
pub assume_specification<'a, K: Ord, V, A: core::alloc::Allocator + Clone> [Entry::<'a, K, V, A>::or_insert] (e: Entry<'a, K, V, A>, default: V) -> (r: &'a mut V)
    ensures *r == (if entry_old(e).contains_key(entry_key(e)) { entry_old(e)[entry_key(e)] } else { default }),
            entry_fin(e) == entry_old(e).insert(entry_key(e), *final(r));
pub assume_specification<'a, K: Ord, V, A: core::alloc::Allocator + Clone, F: FnOnce(&mut V)> [Entry::<'a, K, V, A>::and_modify] (e: Entry<'a, K, V, A>, f: F) -> (r: Entry<'a, K, V, A>)
    requires entry_old(e).contains_key(entry_key(e)) ==> forall|v: &mut V| *v == entry_old(e)[entry_key(e)] ==> call_requires(f, (v,)),
    ensures
        entry_key(r) == entry_key(e), entry_fin(r) == entry_fin(e),
        !entry_old(e).contains_key(entry_key(e)) ==> entry_old(r) == entry_old(e),
        entry_old(e).contains_key(entry_key(e)) ==> exists|v: &mut V| *v == entry_old(e)[entry_key(e)] && call_ensures(f, (v,), ()) && entry_old(r) == entry_old(e).insert(entry_key(e), *final(v));
// R28: `v.iter().position(p)` / `v.iter_mut().for_each(f)` / `v.iter_mut().find(p)` on a Vec: wrappers whose
// contracts are stated over the vector's view (composition of two std calls each; cross-checked
// against the real std functions by bounded Kani harnesses)
#[verifier::external_body]
fn vec_position<T, P: FnMut(&T) -> bool>(v: &Vec<T>, p: P) -> (r: Option<usize>)
    requires forall|i: int| 0 <= i < v@.len() ==> call_requires(p, (&#[trigger] v@[i],)),
    ensures
        r is Some ==> r->0 < v@.len() && call_ensures(p, (&v@[r->0 as int],), true)
            && forall|j: int| 0 <= j < r->0 ==> call_ensures(p, (&#[trigger] v@[j],), false),
        r is None ==> forall|j: int| 0 <= j < v@.len() ==> call_ensures(p, (&#[trigger] v@[j],), false),
{ v.iter().position(p) }
#[verifier::external_body]
fn vec_for_each_mut<T, F: FnMut(&mut T)>(v: &mut Vec<T>, f: F)
    requires forall|i: int, x: &mut T| 0 <= i < old(v)@.len() && *x == old(v)@[i] ==> call_requires(f, (x,)),
    ensures final(v)@.len() == old(v)@.len(),
        forall|i: int| 0 <= i < old(v)@.len() ==> exists|x: &mut T| *x == old(v)@[i] && *final(x) == #[trigger] final(v)@[i] && call_ensures(f, (x,), ()),
{ v.iter_mut().for_each(f) }
// R28/R30: `v.iter_mut().find(p)` and `for (k, v) in map.iter_mut() { BODY }` (== map.iter_mut().for_each(|(k, v)| BODY)):
// BTreeMap::iter_mut has no model in the installed vstd and the orphan rule forbids adding one, so the loop is read
// as a call of this wrapper with the loop body, verbatim, as the closure
#[verifier::external_body]
fn vec_find_mut<'a, T, P: FnMut(&&mut T) -> bool>(v: &'a mut Vec<T>, p: P) -> (r: Option<&'a mut T>)
    requires forall|x: &mut T| call_requires(p, (&x,)),
    ensures
        r is None ==> final(v)@ == old(v)@ && forall|i: int| 0 <= i < old(v)@.len() ==> exists|x: &mut T| *x == #[trigger] old(v)@[i] && call_ensures(p, (&x,), false),
        r is Some ==> exists|i: int| 0 <= i < old(v)@.len() && *r->0 == #[trigger] old(v)@[i] && final(v)@ == old(v)@.update(i, *final(r->0))
            && (exists|x: &mut T| *x == old(v)@[i] && call_ensures(p, (&x,), true))
            && (forall|j: int| 0 <= j < i ==> exists|x: &mut T| *x == #[trigger] old(v)@[j] && call_ensures(p, (&x,), false)),
{ v.iter_mut().find(p) }
#[verifier::external_body]
fn btree_for_each_mut<K, V, F: FnMut(&K, &mut V)>(m: &mut BTreeMap<K, V>, mut f: F)
    requires forall|k: K, v: &mut V| old(m)@.contains_key(k) && *v == old(m)@[k] ==> call_requires(f, (&k, v)),
    ensures final(m)@.dom() == old(m)@.dom(),
        forall|k: K| old(m)@.contains_key(k) ==> exists|v: &mut V| *v == old(m)@[k] && *final(v) == #[trigger] final(m)@[k] && call_ensures(f, (&k, v), ()),
{ for (k, v) in m.iter_mut() { f(k, v) } }
// R30b: the same loop with a `break` in its body: the closure returns true where the loop breaks; entries after the
// break are not visited (they stay as they were)
#[verifier::external_body]
fn btree_for_each_mut_until<K, V, F: FnMut(&K, &mut V) -> bool>(m: &mut BTreeMap<K, V>, mut f: F)
    requires forall|k: K, v: &mut V| old(m)@.contains_key(k) && *v == old(m)@[k] ==> call_requires(f, (&k, v)),
    ensures final(m)@.dom() == old(m)@.dom(),
        forall|k: K| old(m)@.contains_key(k) ==> (#[trigger] final(m)@[k] == old(m)@[k]
            || exists|v: &mut V, b: bool| *v == old(m)@[k] && *final(v) == final(m)@[k] && call_ensures(f, (&k, v), b)),
{ for (k, v) in m.iter_mut() { if f(k, v) { break; } } }
// R29: `vec == *slice` (PartialEq<[u8]> for Vec<u8>): element-wise comparison
#[verifier::external_body]
fn vec_eq_slice(a: &Vec<u8>, b: &[u8]) -> (r: bool) ensures r == (a@ == b@) { *a == *b }
// Vec::retain keeps, in order, exactly the elements the predicate accepts
pub assume_specification<T, A: core::alloc::Allocator, F: FnMut(&T) -> bool> [Vec::<T, A>::retain] (v: &mut Vec<T, A>, f: F)
    requires forall|i: int| 0 <= i < old(v)@.len() ==> call_requires(f, (&#[trigger] old(v)@[i],)),
    ensures exists|p: spec_fn(T) -> bool| #[trigger] old(v)@.filter(p) == final(v)@
        && forall|i: int| 0 <= i < old(v)@.len() ==> ((p(#[trigger] old(v)@[i]) ==> call_ensures(f, (&old(v)@[i],), true)) && (!p(old(v)@[i]) ==> call_ensures(f, (&old(v)@[i],), false)));

// ---- assumptions on the generic Endpoint type, stated as preconditions: `==` is structural
// (an equivalence that agrees with spec equality) and clone() returns an equal value
pub open spec fn ep_ok<E: PartialEq + Clone>() -> bool {
    // String keys: std's Ord for String is a total order consistent with == (vstd's key model)
    &&& vstd::laws_cmp::obeys_cmp_spec::<String>()
    // ... and Strings with the same characters are the same key
    &&& forall|a: String, b: String| #[trigger] a@ == #[trigger] b@ ==> a == b
    &&& E::obeys_eq_spec()
    &&& forall|a: E, b: E| #[trigger] a.eq_spec(&b) == (a == b)
    &&& forall|a: E, b: E| #[trigger] call_ensures(E::clone, (&a,), b) ==> a == b
}
// ---- views ----
pub open spec fn fresh_obs<E: Display>(o: Observer<E>, ep: E, tok: Seq<u8>) -> bool {
    o.endpoint == ep && o.token@ == tok && o.unacknowledged_messages == 0 && o.message_id is None
}
pub open spec fn first_with_ep<E: Display>(s: Seq<Observer<E>>, ep: E, i: int) -> bool {
    0 <= i < s.len() && s[i].endpoint == ep && forall|j: int| 0 <= j < i ==> (#[trigger] s[j]).endpoint != ep
}
// C14: re-registration replaces that observer in place (token, cleared counters), a new endpoint
// is appended after the existing ones; nothing else in the list changes
pub open spec fn registered<E: Display>(old_s: Seq<Observer<E>>, new_s: Seq<Observer<E>>, ep: E, tok: Seq<u8>) -> bool {
    ||| (exists|i: int| #[trigger] first_with_ep(old_s, ep, i) && new_s.len() == old_s.len() && fresh_obs(new_s[i], ep, tok)
            && forall|j: int| 0 <= j < old_s.len() && j != i ==> #[trigger] new_s[j] == old_s[j])
    ||| ((forall|i: int| 0 <= i < old_s.len() ==> (#[trigger] old_s[i]).endpoint != ep)
            && new_s.len() == old_s.len() + 1 && fresh_obs(new_s[new_s.len() - 1], ep, tok)
            && forall|j: int| 0 <= j < old_s.len() ==> #[trigger] new_s[j] == old_s[j])
}
pub open spec fn matches<E: Display>(o: Observer<E>, ep: E, tok: Seq<u8>) -> bool { o.endpoint == ep && o.token@ == tok }
// C14: deregistration removes exactly the (first) observer whose endpoint and token both match
pub open spec fn deregistered<E: Display>(old_s: Seq<Observer<E>>, new_s: Seq<Observer<E>>, ep: E, tok: Seq<u8>) -> bool {
    ||| (exists|i: int| 0 <= i < old_s.len() && #[trigger] matches(old_s[i], ep, tok) && (forall|j: int| 0 <= j < i ==> !matches(#[trigger] old_s[j], ep, tok))
            && new_s == old_s.remove(i))
    ||| ((forall|i: int| 0 <= i < old_s.len() ==> !matches(#[trigger] old_s[i], ep, tok)) && new_s == old_s)
}
// C15: a notification round stamps every observer with the message id and counts it iff confirmable
pub open spec fn bump<E: Display>(o: Observer<E>, mid: u16, conf: bool) -> Observer<E> {
    Observer { endpoint: o.endpoint, token: o.token, unacknowledged_messages: (o.unacknowledged_messages + (if conf { 1int } else { 0int })) as {CNT}, message_id: Some(mid) }
}
pub open spec fn notified<E: Display>(s: Seq<Observer<E>>, mid: u16, conf: bool) -> Seq<Observer<E>> { s.map_values(|o: Observer<E>| bump(o, mid, conf)) }
// ... and drops exactly those whose count now exceeds the limit, keeping the order of the rest
pub open spec fn kept<E: Display>(s: Seq<Observer<E>>, limit: u8) -> Seq<Observer<E>> { s.filter(|o: Observer<E>| o.unacknowledged_messages as int <= limit as int) }
proof fn lemma_filter_ext<T>(s: Seq<T>, p: spec_fn(T) -> bool, q: spec_fn(T) -> bool)
    requires forall|i: int| 0 <= i < s.len() ==> p(#[trigger] s[i]) == q(s[i])
    ensures s.filter(p) == s.filter(q)
    decreases s.len()
{
    reveal(Seq::filter);
    if s.len() > 0 {
        let t = s.drop_last();
        assert forall|i: int| 0 <= i < t.len() implies p(#[trigger] t[i]) == q(t[i]) by { assert(t[i] == s[i]); }
        lemma_filter_ext(t, p, q);
        assert(p(s.last()) == q(s.last())) by { assert(s[s.len() - 1] == s.last()); }
    }
}
// filtering keeps a subsequence: distinct endpoints stay distinct
proof fn lemma_filter_distinct<E: Display>(s: Seq<Observer<E>>, p: spec_fn(Observer<E>) -> bool)
    requires distinct_eps(s)
    ensures distinct_eps(s.filter(p)), forall|i: int| 0 <= i < s.filter(p).len() ==> p(#[trigger] s.filter(p)[i]) && exists|j: int| 0 <= j < s.len() && s[j] == s.filter(p)[i]
    decreases s.len()
{
    reveal(Seq::filter);
    if s.len() > 0 {
        let t = s.drop_last();
        assert(distinct_eps(t)) by { assert forall|i: int, j: int| 0 <= i < j < t.len() implies (#[trigger] t[i]).endpoint != (#[trigger] t[j]).endpoint by { assert(s[i].endpoint != s[j].endpoint); } }
        lemma_filter_distinct(t, p);
        let f = s.filter(p); let ft = t.filter(p);
        assert forall|i: int| 0 <= i < f.len() implies p(#[trigger] f[i]) && exists|j: int| 0 <= j < s.len() && s[j] == f[i] by {
            if i < ft.len() { assert(p(ft[i])); let j = choose|j: int| 0 <= j < t.len() && t[j] == ft[i]; assert(s[j] == f[i]); }
            else { assert(s[s.len() - 1] == f[i]); }
        }
        if p(s.last()) {
            assert forall|i: int, j: int| 0 <= i < j < f.len() implies (#[trigger] f[i]).endpoint != (#[trigger] f[j]).endpoint by {
                if j < ft.len() { assert(ft[i].endpoint != ft[j].endpoint); }
                else { let k = choose|k: int| 0 <= k < t.len() && t[k] == ft[i]; assert(s[k].endpoint != s[s.len() - 1].endpoint); }
            }
        }
    }
}
// C15: an acknowledgement from the same endpoint for the most recent notification's message id resets that observer's
// count (first such observer of each resource); acknowledgements with another endpoint or message id change nothing
pub open spec fn ack_matches<E: Display>(o: Observer<E>, ep: E, mid: u16) -> bool { o.message_id == Some(mid) && o.endpoint == ep }
pub open spec fn ack_reset<E: Display>(o: Observer<E>) -> Observer<E> { Observer { endpoint: o.endpoint, token: o.token, unacknowledged_messages: 0, message_id: None } }
pub open spec fn acked<E: Display>(old_s: Seq<Observer<E>>, new_s: Seq<Observer<E>>, ep: E, mid: u16) -> bool {
    ||| (exists|i: int| 0 <= i < old_s.len() && #[trigger] ack_matches(old_s[i], ep, mid) && (forall|j: int| 0 <= j < i ==> !ack_matches(#[trigger] old_s[j], ep, mid))
            && new_s == old_s.update(i, ack_reset(old_s[i])))
    ||| ((forall|i: int| 0 <= i < old_s.len() ==> !ack_matches(#[trigger] old_s[i], ep, mid)) && new_s == old_s)
}
// data-structure invariant (C14): at most one observer per endpoint on each resource
pub open spec fn distinct_eps<E: Display>(s: Seq<Observer<E>>) -> bool {
    forall|i: int, j: int| 0 <= i < j < s.len() ==> (#[trigger] s[i]).endpoint != (#[trigger] s[j]).endpoint
}
// ... and no stored counter is above 255 (the largest configurable limit), so `+= 1` cannot overflow
// ... and no stored counter is above the configured limit (<= 255) between operations - a round drops whoever exceeds it, registration and
// acknowledgement reset to 0 - so `+= 1` cannot overflow.  (The limit is fixed per history: C14/C15 quantify over histories of
// registrations, deregistrations, rounds and acknowledgements, not over reconfiguration in the middle.)
pub open spec fn counts_ok<E: Display>(s: Seq<Observer<E>>, lim: u8) -> bool { forall|i: int| 0 <= i < s.len() ==> (#[trigger] s[i]).unacknowledged_messages <= lim }
pub open spec fn wf<E: Display + PartialEq>(sub: Subject<E>) -> bool {
    forall|p: String| sub.resources@.contains_key(p) ==> distinct_eps(#[trigger] sub.resources@[p].observers@) && counts_ok(sub.resources@[p].observers@, sub.unacknowledged_limit)
}
pub open spec fn obs_of<E: Display + PartialEq>(sub: Subject<E>, p: String) -> Seq<Observer<E>> {
    if sub.resources@.contains_key(p) { sub.resources@[p].observers@ } else { Seq::empty() }
}
pub open spec fn seq_of<E: Display + PartialEq>(sub: Subject<E>, p: String) -> int {
    if sub.resources@.contains_key(p) { sub.resources@[p].sequence as int } else { 0 }
}
'''

S = 'impl<Endpoint: Display + PartialEq + Clone> Subject<Endpoint>'


def build(repo):
    u = Unit(NAME, repo)
    # the counter's integer type is read from the struct (the contracts are stated over its value)
    m = re.search(r'unacknowledged_messages:\s*(u\d+|usize)\s*,', u.src('observe.rs').code)
    if not m:
        raise ExtractError('unit obs: type of Observer.unacknowledged_messages not found')
    cnt = m.group(1)
    u.raw(SPEC.replace('{CNT}', cnt), 'units/obs.py')
    s = u.src('log.rs')
    u.chunks.append(('code', 'log.rs:1-%d' % s.text.count('\n'), s.text))
    u.items('observe.rs', 'const DEFAULT_UNACKNOWLEDGED_LIMIT', 'pub struct Observer<Endpoint: Display>', 'pub struct Resource<Endpoint: Display>',
            'pub struct Subject<Endpoint: Display + PartialEq>')
    u.impl_fns('observe.rs', S, ['register', 'deregister', 'resource_changed', 'acknowledge'])
    u.assemble()
    u.rule('R28:iter-position', r'((?:\w+\s*\.\s*)*\w+)\s*\.iter\(\)\s*\.position\(',
           lambda m: 'vec_position(&%s, ' % re.sub(r'\s+', '', m.group(1)), 2)
    for st in ['Observer', 'Resource', 'Subject']:
        u.pub_fields(st)
    u.contract((S, 'register'), '''        requires request.source is Some, ep_ok::<Endpoint>(), wf(*old(self))
        ensures
            // only this resource's entry changes
            final(self).resources@ == old(self).resources@.insert(request.path, final(self).resources@[request.path]),
            // C15: only notification rounds move a sequence number (where a new resource starts counting is not part of the property)
            old(self).resources@.contains_key(request.path) ==> final(self).resources@[request.path].sequence == old(self).resources@[request.path].sequence, // @props C15
            registered(obs_of(*old(self), request.path), final(self).resources@[request.path].observers@, request.source->0, request.message.token@),
            final(self).unacknowledged_limit == old(self).unacknowledged_limit,
            wf(*final(self))''')
    u.body_start((S, 'register'), '        broadcast use axiom_entry_resolved;')
    u.closure((S, 'register'), r'\|x\|(?=\s*x\.endpoint == observer\.endpoint)', 'x: &Observer<Endpoint>', 'b: bool', 'ensures b == (x.endpoint == observer.endpoint)')
    u.before((S, 'register'), r'if let Some\(position\) = vec_position', '''        let ghost old_s = resource.observers@;
        let ghost ep = request.source->0;
        let ghost tok = request.message.token@;
        proof {
            assert(old_s == obs_of(*old(self), request.path));
            assert(observer.endpoint == ep);
            assert(distinct_eps(old_s) && counts_ok(old_s, old(self).unacknowledged_limit));
        }''')
    u.at_block_end((S, 'register'), r'if let Some\(position\) = vec_position', '''            proof {
                let new_s = resource.observers@;
                assert(counts_ok(new_s, old(self).unacknowledged_limit)) by { assert forall|i: int| 0 <= i < new_s.len() implies (#[trigger] new_s[i]).unacknowledged_messages <= old(self).unacknowledged_limit by { if i != position { assert(new_s[i] == old_s[i]); } } }
                assert(first_with_ep(old_s, ep, position as int));
                assert(fresh_obs(new_s[position as int], ep, tok));
                assert(registered(old_s, new_s, ep, tok));
                assert(distinct_eps(new_s)) by {
                    assert forall|i: int, j: int| 0 <= i < j < new_s.len() implies (#[trigger] new_s[i]).endpoint != (#[trigger] new_s[j]).endpoint by {
                        if i != position && j != position { assert(old_s[i].endpoint != old_s[j].endpoint); }
                        else if i == position { assert(old_s[i].endpoint != old_s[j].endpoint); }
                        else { assert(old_s[i].endpoint != old_s[j].endpoint); }
                    }
                }
            }''')
    u.at_block_end((S, 'register'), r'if let Some\(position\) = vec_position', which='else', text='''            proof {
                let new_s = resource.observers@;
                assert(counts_ok(new_s, old(self).unacknowledged_limit)) by { assert forall|i: int| 0 <= i < new_s.len() implies (#[trigger] new_s[i]).unacknowledged_messages <= old(self).unacknowledged_limit by { if i < old_s.len() { assert(new_s[i] == old_s[i]); } } }
                assert forall|i: int| 0 <= i < old_s.len() implies (#[trigger] old_s[i]).endpoint != ep by { }
                assert(fresh_obs(new_s[new_s.len() - 1], ep, tok));
                assert(registered(old_s, new_s, ep, tok));
                assert(distinct_eps(new_s)) by {
                    assert forall|i: int, j: int| 0 <= i < j < new_s.len() implies (#[trigger] new_s[i]).endpoint != (#[trigger] new_s[j]).endpoint by {
                        if j < old_s.len() { assert(old_s[i].endpoint != old_s[j].endpoint); }
                        else { assert(old_s[i].endpoint != ep); }
                    }
                }
            }''')
    u.body_end((S, 'register'), '''        proof {
            assert forall|p: String| self.resources@.contains_key(p) implies distinct_eps(#[trigger] self.resources@[p].observers@) && counts_ok(self.resources@[p].observers@, self.unacknowledged_limit) by {
                if p != request.path { assert(old(self).resources@.contains_key(p)); assert(self.resources@[p] == old(self).resources@[p]); }
            }
        }''')
    u.rule('R29:vec-eq-slice', r'x\.token == \*token', 'vec_eq_slice(&x.token, token)', 1)
    u.contract((S, 'deregister'), '''        requires request.source is Some, ep_ok::<Endpoint>(), wf(*old(self))
        ensures
            !old(self).resources@.contains_key(request.path) ==> final(self).resources@ == old(self).resources@,
            old(self).resources@.contains_key(request.path) ==> final(self).resources@ == old(self).resources@.insert(request.path, final(self).resources@[request.path])
                && final(self).resources@[request.path].sequence == old(self).resources@[request.path].sequence,
            // C14: exactly the matching observer goes, the others stay as listed
            old(self).resources@.contains_key(request.path) ==>
                deregistered(old(self).resources@[request.path].observers@, final(self).resources@[request.path].observers@, request.source->0, request.message.token@), // @props C14
            // C15: whoever stays keeps its count and pending message id
            old(self).resources@.contains_key(request.path) ==>
                (forall|i: int| 0 <= i < final(self).resources@[request.path].observers@.len() ==>
                    old(self).resources@[request.path].observers@.contains(#[trigger] final(self).resources@[request.path].observers@[i])), // @props C15
            final(self).unacknowledged_limit == old(self).unacknowledged_limit,
            wf(*final(self))''')
    u.closure((S, 'deregister'), r'\|x\|', 'x: &Observer<Endpoint>', 'b: bool', 'ensures b == matches(*x, *observer_endpoint, token@)')
    u.before((S, 'deregister'), r'let position = vec_position', '''            let ghost old_s = resource.observers@;
            let ghost ep = request.source->0;
            let ghost tok = request.message.token@;
            proof {
                assert(resource_path == request.path);
                assert(old(self).resources@.contains_key(request.path));
                assert(old_s == old(self).resources@[request.path].observers@);
                assert(distinct_eps(old_s) && counts_ok(old_s, old(self).unacknowledged_limit));
            }''')
    u.at_block_end((S, 'deregister'), r'if let Some\(position\) = position', '''                proof {
                    let new_s = resource.observers@;
                    assert(new_s =~= old_s.remove(position as int)); // @props C14
                    assert forall|i: int| 0 <= i < new_s.len() implies old_s.contains(#[trigger] new_s[i]) by { let a = if i < position { i } else { i + 1 }; assert(new_s[i] == old_s[a]); }
                    assert(matches(old_s[position as int], ep, tok));
                    assert(deregistered(old_s, new_s, ep, tok));
                    assert(counts_ok(new_s, old(self).unacknowledged_limit)) by { assert forall|i: int| 0 <= i < new_s.len() implies (#[trigger] new_s[i]).unacknowledged_messages <= old(self).unacknowledged_limit by { let a = if i < position { i } else { i + 1 }; assert(new_s[i] == old_s[a]); } }
                    assert(distinct_eps(new_s)) by {
                        assert forall|i: int, j: int| 0 <= i < j < new_s.len() implies (#[trigger] new_s[i]).endpoint != (#[trigger] new_s[j]).endpoint by {
                            let a = if i < position { i } else { i + 1 }; let b = if j < position { j } else { j + 1 };
                            assert(old_s[a].endpoint != old_s[b].endpoint);
                        }
                    }
                }''')
    u.body_end((S, 'deregister'), '''        proof {
            assert forall|p: String| self.resources@.contains_key(p) implies distinct_eps(#[trigger] self.resources@[p].observers@) && counts_ok(self.resources@[p].observers@, self.unacknowledged_limit) by {
                if p != request.path { assert(old(self).resources@.contains_key(p)); assert(self.resources@[p] == old(self).resources@[p]); }
            }
        }''')
    # ---- resource_changed -------------------------------------------------------------------------
    u.rule('R28:iter_mut-for_each', r'((?:\w+\s*\.\s*)*\w+)\s*\.iter_mut\(\)\s*\.for_each\(',
           lambda m: 'vec_for_each_mut(&mut %s, ' % re.sub(r'\s+', '', m.group(1)), 1)
    u.contract((S, 'resource_changed'), '''        requires ep_ok::<Endpoint>(), wf(*old(self)),
            // history length: fewer than 2^32 rounds per resource (the sequence number is a u32)
            forall|p: String| old(self).resources@.contains_key(p) && p@ == resource@ ==> old(self).resources@[p].sequence < u32::MAX,
        ensures
            // a round for an unobserved path creates nothing
            (forall|p: String| p@ == resource@ ==> !old(self).resources@.contains_key(p)) ==> final(self).resources@ == old(self).resources@,
            forall|p: String| p@ == resource@ && old(self).resources@.contains_key(p) ==>
                final(self).resources@ == old(self).resources@.insert(p, final(self).resources@[p])
                // C15: the sequence number grows by exactly one
                && final(self).resources@[p].sequence == old(self).resources@[p].sequence + 1
                // C15: counted iff confirmable, dropped exactly when the count exceeds the limit
                && final(self).resources@[p].observers@ == kept(notified(old(self).resources@[p].observers@, message_id, is_confirmable), old(self).unacknowledged_limit),
            final(self).unacknowledged_limit == old(self).unacknowledged_limit,
            wf(*final(self))''')
    u.body_start((S, 'resource_changed'), '        broadcast use axiom_entry_resolved;')
    RC = (S, 'resource_changed')
    u.closure(RC, r'\|observer\|', 'observer: &Observer<Endpoint>', 'b: bool', 'requires !is_confirmable ==> observer.unacknowledged_messages as int <= unacknowledged_limit as int ensures b == (observer.unacknowledged_messages as int <= unacknowledged_limit as int)', nth=1, count=2)
    u.replace_in(RC, 'R18:closure-contract(for_each)', r'\|observer\| \{',
                 '''|observer: &mut Observer<Endpoint>|
                    requires observer.unacknowledged_messages <= 255
                    ensures *final(observer) == bump(*old(observer), message_id, is_confirmable)
                {''')
    u.replace_in(RC, 'R18:closure-contract(and_modify)', r'\|resource\| \{',
                 '''|resource: &mut Resource<Endpoint>|
                requires resource.sequence < u32::MAX, distinct_eps(resource.observers@), counts_ok(resource.observers@, unacknowledged_limit)
                ensures final(resource).sequence == old(resource).sequence + 1,
                    final(resource).observers@ == kept(notified(old(resource).observers@, message_id, is_confirmable), unacknowledged_limit),
                    distinct_eps(final(resource).observers@), counts_ok(final(resource).observers@, unacknowledged_limit)
            {
                let ghost s0 = resource.observers@;''')
    u.before(RC, r'resource\.observers\.retain\(', '''                let ghost s1 = resource.observers@;
                proof {
                    assert(s1 =~= notified(s0, message_id, is_confirmable));
                    assert forall|i: int| 0 <= i < s1.len() && !is_confirmable implies (#[trigger] s1[i]).unacknowledged_messages as int <= unacknowledged_limit as int by { assert(s1[i] == bump(s0[i], message_id, is_confirmable)); }
                }''')
    u.after_stmt(RC, r'resource\.observers\.retain\(', '''                proof {
                    let s2 = resource.observers@;
                    let pr = choose|pr: spec_fn(Observer<Endpoint>) -> bool| #[trigger] s1.filter(pr) == s2
                        && forall|i: int| 0 <= i < s1.len() ==> (pr(#[trigger] s1[i]) <==> s1[i].unacknowledged_messages as int <= unacknowledged_limit as int);
                    lemma_filter_ext(s1, pr, |o: Observer<Endpoint>| o.unacknowledged_messages as int <= unacknowledged_limit as int);
                    assert(s2 == kept(s1, unacknowledged_limit));
                    assert(distinct_eps(s1)) by {
                        assert forall|i: int, j: int| 0 <= i < j < s1.len() implies (#[trigger] s1[i]).endpoint != (#[trigger] s1[j]).endpoint by { assert(s0[i].endpoint != s0[j].endpoint); }
                    }
                    lemma_filter_distinct(s1, |o: Observer<Endpoint>| o.unacknowledged_messages as int <= unacknowledged_limit as int);
                    assert(counts_ok(s2, unacknowledged_limit)) by {
                        let kp = |o: Observer<Endpoint>| o.unacknowledged_messages as int <= unacknowledged_limit as int;
                        assert forall|i: int| 0 <= i < s2.len() implies (#[trigger] s2[i]).unacknowledged_messages <= unacknowledged_limit by {
                            assert(kp(s1.filter(kp)[i]));
                        }
                    }
                }''')
    # ---- acknowledge -----------------------------------------------------------------------------------
    AK = (S, 'acknowledge')
    s_, p_, bo_, bc_ = u._fn_span(AK)
    has_break = re.search(r'(?<![A-Za-z0-9_])break\s*;', s_.code[bo_:bc_]) is not None
    u.replace_in(AK, 'R30:for-iter_mut', r'for \(resource_path, resource\) in self\.resources\.iter_mut\(\) \{',
                 '''let ghost lim = self.unacknowledged_limit;
            %s(&mut self.resources, |resource_path: &String, resource: &mut Resource<Endpoint>|%s
                requires distinct_eps(resource.observers@), counts_ok(resource.observers@, lim)
                ensures final(resource).sequence == old(resource).sequence,
                    acked(old(resource).observers@, final(resource).observers@, *observer_endpoint, message_id),
                    distinct_eps(final(resource).observers@), counts_ok(final(resource).observers@, lim)
            {
            let ghost s0 = resource.observers@;''' % (('btree_for_each_mut_until', ' -> (stop: bool)') if has_break else ('btree_for_each_mut', '')))
    # the loop's closing brace becomes the end of the closure and of the call
    s_, p_, bo_, bc_ = u._fn_span(AK)
    close = u.text.rfind('}', bo_, bc_)          # last '}' inside the fn body = end of the former loop
    u.text = u.text[:close] + ('false });' if has_break else '});') + u.text[close + 1:]
    if has_break:
        u.replace_in(AK, 'R30b:break-as-return', r'(?<![A-Za-z0-9_])break\s*;', 'return true;', (1, 5))
    u.rule('R28:iter_mut-find', r'((?:\w+\s*\.\s*)*\w+)\s*\.iter_mut\(\)\s*\.find\(', lambda m: 'vec_find_mut(&mut %s, ' % re.sub(r'\s+', '', m.group(1)), 1)
    u.closure(AK, r'\|x\|', 'x: &&mut Observer<Endpoint>', 'b: bool', 'ensures b == ack_matches(*old(*x), *observer_endpoint, message_id)')
    u.contract(AK, '''        requires request.source is Some, ep_ok::<Endpoint>(), wf(*old(self))
        ensures
            final(self).resources@.dom() == old(self).resources@.dom(),
            forall|p: String| old(self).resources@.contains_key(p) ==> (#[trigger] final(self).resources@[p]).sequence == old(self).resources@[p].sequence
                && acked(old(self).resources@[p].observers@, final(self).resources@[p].observers@, request.source->0, request.message.header.message_id),
            final(self).unacknowledged_limit == old(self).unacknowledged_limit,
            wf(*final(self))''')
    u.finish(HEAD)
    return u
