"""Unit `lfp`: the two link-format scanners LinkFormatParser::next and LinkAttributeParser::next
(C17, first sentence): for every input string each call terminates without panicking (all
slicings at character boundaries and in range, pointer differences taken between a string and one
of its suffixes only), consumes a non-empty prefix of the remaining input whenever that is
non-empty (so iteration terminates), yields only substrings of the consumed prefix in
left-to-right order, and leaves nothing to iterate after an error or after None.

Both functions are verified verbatim after the reading rules R34-R36 (std string functions
through wrappers with assumed contracts over the byte-offset model of spec/strmodel.rs;
`x.as_ptr() as usize - y.as_ptr() as usize` read as suffix_offset(y, x) whose precondition - x is
a suffix of y - is a proof obligation; `for c in iter.by_ref()` desugared; `Chars::next` through a
wrapper that adds a termination measure)."""
import re

from vf.unit import Unit
from . import common, strrules

NAME = 'lfp'
PROPS = ['C17']
RLIMIT = 60

SPEC = r'''
pub open spec fn is_suffix(t: Seq<char>, s: Seq<char>) -> bool { t.len() <= s.len() && t == s.skip(s.len() - t.len()) }
proof fn lemma_sub_of_sub(whole: Seq<char>, x: Seq<char>, lo: int, hi: int)
    requires 0 <= lo <= hi <= whole.len(), x == whole.subrange(lo, hi)
    ensures forall|a: int, b: int| 0 <= a <= b <= x.len() ==> whole.subrange(lo + a, lo + b) == #[trigger] x.subrange(a, b)
{
    assert forall|a: int, b: int| 0 <= a <= b <= x.len() implies whole.subrange(lo + a, lo + b) == #[trigger] x.subrange(a, b) by {
        assert(whole.subrange(lo + a, lo + b) =~= x.subrange(a, b));
    }
}
// R36: Chars::next through a wrapper: vstd's contract plus an abstract measure that decreases on Some
pub uninterp spec fn chars_len<'a>(c: core::str::Chars<'a>) -> nat;
#[verifier::external_body]
pub fn chars_next<'a>(c: &mut core::str::Chars<'a>) -> (r: Option<char>)
    ensures (*old(c)).remaining().len() == 0 ==> r is None && (*final(c)).remaining() == (*old(c)).remaining() && chars_len(*final(c)) == chars_len(*old(c)),
        (*old(c)).remaining().len() > 0 ==> r == Some((*old(c)).remaining()[0]) && (*final(c)).remaining() == (*old(c)).remaining().skip(1) && chars_len(*final(c)) < chars_len(*old(c))
{ unimplemented!() }
// R35: `suffix.as_ptr() as usize - whole.as_ptr() as usize`
#[verifier::external_body]
pub fn suffix_offset(whole: &str, suffix: &str) -> (r: usize)
    requires is_suffix(suffix@, whole@)
    ensures r as int == boff(whole@, whole@.len() - suffix@.len())
{ unimplemented!() }

// vstd's prophetic iterator laws are not claimed for the three iterators; their contracts are on `next`
impl<'a> vstd::std_specs::iter::IteratorSpecImpl for LinkAttributeParser<'a> {
    open spec fn obeys_prophetic_iter_laws(&self) -> bool { false }
    open spec fn remaining(&self) -> Seq<(&'a str, Unquote<'a>)> { Seq::empty() }
    open spec fn decrease(&self) -> Option<nat> { None }
    open spec fn peek(&self, i: int) -> Option<(&'a str, Unquote<'a>)> { None }
    open spec fn will_return_none(&self) -> bool { false }
}
impl<'a> vstd::std_specs::iter::IteratorSpecImpl for LinkFormatParser<'a> {
    open spec fn obeys_prophetic_iter_laws(&self) -> bool { false }
    open spec fn remaining(&self) -> Seq<Result<(&'a str, LinkAttributeParser<'a>), ErrorLinkFormat>> { Seq::empty() }
    open spec fn decrease(&self) -> Option<nat> { None }
    open spec fn peek(&self, i: int) -> Option<Result<(&'a str, LinkAttributeParser<'a>), ErrorLinkFormat>> { None }
    open spec fn will_return_none(&self) -> bool { false }
}
'''

# loop invariant shared by every scanning loop: the iterator holds a suffix of the input
SUFFIX_STEP = 'forall|r: Seq<char>| is_suffix(r, whole) && r.len() > 0 ==> #[trigger] is_suffix(r.skip(1), whole), forall|t: Seq<char>| t.len() >= 2 ==> #[trigger] t.skip(1).skip(1) == t.skip(2)'
PRE = '''        let ghost whole = self.inner@;
        proof {
            reveal_strlit("");
            assert forall|r: Seq<char>| is_suffix(r, whole) && r.len() > 0 implies #[trigger] is_suffix(r.skip(1), whole) by {
                assert(r.skip(1) =~= whole.skip(whole.len() - r.len() + 1));
            }
            assert forall|t: Seq<char>| t.len() >= 2 implies #[trigger] t.skip(1).skip(1) == t.skip(2) by { assert(t.skip(1).skip(1) =~= t.skip(2)); }
            assert(whole.skip(0) =~= whole);
            assert(""@ =~= whole.skip(whole.len() as int));
        }'''


def boundaries(name):
    return '''        proof {
            assert forall|r: Seq<char>| is_suffix(r, whole) && r.len() <= %s.len() implies #[trigger] is_suffix(r, %s) by {
                assert(r =~= %s.skip(%s.len() - r.len()));
            }
            assert forall|k: int| 0 <= k <= %s.len() implies is_boundary(%s, #[trigger] boff(%s, k)) && char_at_off(%s, boff(%s, k)) == k by { lemma_off_unique(%s, k); }
        }''' % ((name,) * 10)


def build(repo):
    u = Unit(NAME, repo)
    u.raw('use vstd::std_specs::iter::IteratorSpec;\n', 'units/lfp.py')
    u.prelude('charclass.rs', 'strmodel.rs', 'lfscan.rs')
    u.raw(SPEC, 'units/lfp.py')
    u.items('link_format.rs', 'pub enum ErrorLinkFormat', 'const QUOTE_ESCAPE_CHAR', 'const ATTR_SEPARATOR_CHAR', 'const LINK_SEPARATOR_CHAR',
            'pub struct LinkFormatParser', "impl<'a> Iterator for LinkFormatParser<'a>", 'pub struct LinkAttributeParser',
            "impl<'a> Iterator for LinkAttributeParser<'a>", 'pub struct Unquote', 'enum UnquoteState')
    u.impl_fns('link_format.rs', "impl<'a> Unquote<'a>", ['new'])
    u.assemble()
    u.rule('derive-drop', r'#\[derive\((?:Copy, )?Clone, Debug(?:, Eq, PartialEq)?\)\]\s*(pub struct|pub enum|enum) (ErrorLinkFormat|LinkFormatParser|LinkAttributeParser|Unquote|UnquoteState)', r'\1 \2', 5)
    u.rule('R8:pub-enum', r'(?<!pub )enum UnquoteState', 'pub enum UnquoteState', 1)
    u.rule('R8:pub(super)-field', r'pub\(super\) inner:', 'pub inner:', 2)
    u.pub_fields('Unquote')
    LN = ("impl<'a> Iterator for LinkFormatParser<'a>", 'next')
    AN = ("impl<'a> Iterator for LinkAttributeParser<'a>", 'next')
    for F in (LN, AN):
        # R35a: a temporary holding one side of a pointer difference is inlined first
        for _ in range(3):
            s_, p_, bo_, bc_ = u._fn_span(F)
            body = u.text[bo_:bc_]
            tm = re.search(r'let (\w+)(?:\s*:\s*usize)? = ((?:\w+(?:\.\w+)*(?:\(\))?)(?:\.as_str\(\))?\.as_ptr\(\) as usize);\s*', body)
            if not tm:
                break
            rest = body[:tm.start()] + body[tm.end():]
            rest = re.sub(r'(?<![\w.])' + re.escape(tm.group(1)) + r'(?!\w)', tm.group(2), rest)
            u.text = u.text[:bo_] + rest + u.text[bc_:]
            u.rule_hits.append(('R35a:inline-pointer-temp@' + u.fnkey(F), 1))
        u.replace_in(F, 'R36:chars-next', r'iter\.next\(\)', 'chars_next(&mut iter)', (1, 9))
        u.replace_in(F, 'R35:pointer-difference', r'iter\.as_str\(\)\.as_ptr\(\) as usize\s*-\s*([\w.]+)\.as_ptr\(\) as usize', r'suffix_offset(\1, iter.as_str())', (1, 3))
        strrules.apply(u, F)
    u.replace_in(LN, 'R34:is_ascii_whitespace', r'c\.is_ascii_whitespace\(\)', 'char_is_ascii_whitespace(c)')
    u.replace_in(LN, 'R35:for-by_ref', r'for c in iter\.by_ref\(\) \{', 'loop { let c_opt = chars_next(&mut iter); if c_opt.is_none() { break; } let c = c_opt.unwrap();')
    u.contract(("impl<'a> Unquote<'a>", 'new'), '        ensures r.state == UnquoteState::NotStarted, r.inner.remaining() == quoted_str@', props=PROPS)

    # ---------------- LinkFormatParser::next
    u.contract(LN, '''        ensures
            // @clause links-exhausted-stays-exhausted @props C17
            old(self).inner@.len() == 0 ==> r is None && final(self).inner@ == old(self).inner@,
            // @clause links-progress @props C17
            old(self).inner@.len() > 0 ==> is_suffix(final(self).inner@, old(self).inner@) && final(self).inner@.len() < old(self).inner@.len(),
            // @clause nothing-after-error @props C17
            (r is None || r->0 is Err) ==> final(self).inner@.len() == 0,
            // @clause link-substrings-in-order @props C17
            r is Some && r->0 is Ok ==> ({ let n = old(self).inner@.len() - final(self).inner@.len(); let item = r->0->Ok_0;
                exists|a: int, b: int, c: int, d: int| 0 <= a <= b <= c <= d <= n && #[trigger] old(self).inner@.subrange(a, b) == item.0@ && #[trigger] old(self).inner@.subrange(c, d) == item.1.inner@ }),
            // @clause links-exact @props C16
            old(self).inner@.len() > 0 ==> ({ let s = old(self).inner@; let i = skip_ws(s);
                &&& (r is None <==> i == s.len())
                &&& ((r is Some && r->0 is Err) <==> (i < s.len() && s[i] != '<'))
                &&& (r is Some && r->0 is Ok ==> r->0->Ok_0.0@ == lf_link(s) && r->0->Ok_0.1.inner@ == lf_attrs(s) && final(self).inner@ == lf_rest(s)) })''', props=PROPS)
    u.before(LN, r'let mut iter = self\.inner\.chars\(\);', PRE)
    u.loop(LN, 0, '''            invariant_except_break
                skip_ws(whole) == (whole.len() - iter.remaining().len()) + skip_ws(iter.remaining()), // @props C16
            invariant is_suffix(iter.remaining(), whole), whole.len() > 0, ""@.len() == 0, is_suffix(""@, whole), whole == old(self).inner@,
                %s,
            ensures is_suffix(iter.remaining(), whole), iter.remaining().len() < whole.len(),
                whole.len() - iter.remaining().len() == skip_ws(whole) + 1, skip_ws(whole) < whole.len(), whole[skip_ws(whole)] == '<', // @props C16
            decreases chars_len(iter)''' % SUFFIX_STEP)
    u.after(LN, r'let link_ref = iter\.as_str\(\);', '        let ghost k1 = whole.len() - link_ref@.len();\n        let ghost lr0 = link_ref@;\n        proof { assert(lr0 == lf_after_lt(whole)); }')
    u.loop(LN, 1, '''            invariant_except_break
                first_index(lr0, '>') == (lr0.len() - iter.remaining().len()) + first_index(iter.remaining(), '>'), // @props C16
            invariant is_suffix(iter.remaining(), whole), iter.remaining().len() <= lr0.len(),
                %s,
            ensures is_suffix(iter.remaining(), whole), iter.remaining().len() <= lr0.len(),
                lr0.len() - iter.remaining().len() == lf_link_end(lr0), // @props C16
            decreases chars_len(iter)''' % SUFFIX_STEP)
    u.before(LN, r'let link_len\s*=', boundaries('lr0'))
    u.after(LN, r"let link_ref = [^;]*;", '''        let ghost t1 = link_ref@.len() as int;
        proof { assert(link_ref@ =~= whole.subrange(k1, k1 + t1)); assert(link_ref@ == lf_link(whole)); /* @props C16 */ }''', nth=1, count=2)
    u.after(LN, r'let mut attr_keys = iter\.as_str\(\);', '        let ghost k2 = whole.len() - attr_keys@.len();\n        let ghost ak0 = attr_keys@;\n        proof { assert(ak0 =~= lr0.skip(lf_link_end(lr0))); assert(ak0 == lf_attr_text(whole)); }')
    u.loop(LN, 2, '''            invariant_except_break
                scan_out(ak0, ',') == (ak0.len() - iter.remaining().len()) + scan_out(iter.remaining(), ','), // @props C16
            invariant is_suffix(iter.remaining(), whole), iter.remaining().len() <= ak0.len(),
                %s,
            ensures is_suffix(iter.remaining(), whole), iter.remaining().len() <= ak0.len(),
                ak0.len() - iter.remaining().len() == scan_out(ak0, ','), // @props C16
            decreases chars_len(iter)''' % SUFFIX_STEP)
    u.loop_body_start(LN, 2, '            let ghost d0 = chars_len(iter);')
    u.loop(LN, 3, '''                        invariant_except_break
                            scan_out(ak0, ',') == (ak0.len() - iter.remaining().len()) + scan_in(iter.remaining(), ','), // @props C16
                        invariant is_suffix(iter.remaining(), whole), iter.remaining().len() <= ak0.len(), chars_len(iter) < d0,
                            %s,
                        ensures scan_out(ak0, ',') == (ak0.len() - iter.remaining().len()) + scan_out(iter.remaining(), ','), // @props C16
                        decreases chars_len(iter)''' % SUFFIX_STEP)
    u.before(LN, r'let attr_len\s*=', boundaries('ak0'))
    u.after(LN, r'(?<!mut )attr_keys\s*=\s*[^;]*;', '''        let ghost t2 = attr_keys@.len() as int;
        proof {
            assert(attr_keys@ =~= whole.subrange(k2, k2 + t2));
            assert(attr_keys@ == trim_end_of(ak0.take(scan_out(ak0, ',')), ',')); // @props C16
            lemma_sub_of_sub(whole, attr_keys@, k2, k2 + t2);
        }''')

    u.after(LN, r'self\.inner = iter\.as_str\(\);', '        proof { assert(self.inner@ =~= ak0.skip(scan_out(ak0, \',\'))); }')

    # ---------------- LinkAttributeParser::next
    u.contract(AN, '''        ensures
            // @clause attrs-exhausted-stays-exhausted @props C17
            old(self).inner@.len() == 0 ==> r is None && final(self).inner@ == old(self).inner@,
            // @clause attrs-progress @props C17
            old(self).inner@.len() > 0 ==> r is Some && is_suffix(final(self).inner@, old(self).inner@) && final(self).inner@.len() < old(self).inner@.len(),
            // @clause attr-substrings-in-order @props C17
            r is Some ==> ({ let n = old(self).inner@.len() - final(self).inner@.len(); let item = r->0;
                exists|a: int, b: int, c: int, d: int| 0 <= a <= b <= c <= d <= n && #[trigger] old(self).inner@.subrange(a, b) == item.0@ && #[trigger] old(self).inner@.subrange(c, d) == item.1.inner.remaining() }),
            // @clause attrs-exact @props C16
            old(self).inner@.len() > 0 ==> ({ let s = old(self).inner@; let item = r->0;
                item.0@ == la_key(s) && item.1.state == UnquoteState::NotStarted && item.1.inner.remaining() == la_value(s) && final(self).inner@ == la_rest(s) })''', props=PROPS)
    u.before(AN, r'let mut iter = self\.inner\.chars\(\);', PRE)
    u.loop(AN, 0, '''            invariant_except_break
                scan_out(whole, ';') == (whole.len() - iter.remaining().len()) + scan_out(iter.remaining(), ';'), // @props C16
            invariant is_suffix(iter.remaining(), whole), whole == self.inner@, whole.len() > 0,
                %s,
            ensures is_suffix(iter.remaining(), whole), iter.remaining().len() < whole.len(),
                whole.len() - iter.remaining().len() == scan_out(whole, ';'), // @props C16
            decreases chars_len(iter)''' % SUFFIX_STEP)
    u.loop_body_start(AN, 0, '            let ghost d0 = chars_len(iter);')
    u.loop(AN, 1, '''                        invariant_except_break
                            scan_out(whole, ';') == (whole.len() - iter.remaining().len()) + scan_in(iter.remaining(), ';'), // @props C16
                        invariant is_suffix(iter.remaining(), whole), iter.remaining().len() < whole.len(), chars_len(iter) < d0,
                            %s,
                        ensures scan_out(whole, ';') == (whole.len() - iter.remaining().len()) + scan_out(iter.remaining(), ';'), // @props C16
                        decreases chars_len(iter)''' % SUFFIX_STEP)
    u.before(AN, r'let attr_len\s*=', boundaries('whole'))
    u.after(AN, r'self\.inner = iter\.as_str\(\);', '        let ghost n = whole.len() - self.inner@.len();\n        proof { assert(self.inner@ =~= la_rest(whole)); }')
    u.after(AN, r'let attr_str = [^;]*;', '''        let ghost t = attr_str@.len() as int;
        proof { assert(attr_str@ =~= whole.subrange(0, t)); assert(attr_str@ == la_seg(whole)); /* @props C16 */ }''', nth=1, count=2)
    u.before(AN, r'let \(key, value\) = if let', '        let ghost mut ka: int = 0; let ghost mut kb: int = 0; let ghost mut va: int = 0; let ghost mut vb: int = 0;\n        proof { lemma_first_index(attr_str@, \'=\'); }')
    u.before(AN, r'let \(key, value\) = str_split_at', '''            proof {
                // whichever occurrence of '=' the code looked for, its offset is a character boundary of attr_str
                let g0 = attr_str@;
                lemma_first_index(g0, '='); lemma_last_index(g0, '=');
                assert forall|k: int| 0 <= k <= g0.len() implies is_boundary(g0, #[trigger] boff(g0, k)) && char_at_off(g0, boff(g0, k)) == k by { lemma_off_unique(g0, k); }
            }''')
    u.before(AN, r'\(key, str_from\(value, 1\)\)', '''            proof {
                let g0 = attr_str@;
                let f = g0.len() - value@.len();      // the split point actually used
                assert(key@ =~= g0.take(f) && value@ =~= g0.skip(f));
                assert(value@[0] == '='); axiom_boff_ascii(value@); lemma_off_unique(value@, 1);
                assert(key@ =~= whole.subrange(0, f));
                assert(value@.skip(1) =~= whole.subrange(f + 1, t));
                ka = 0; kb = f; va = f + 1; vb = t;
                assert(f == first_index(g0, '=')); // @props C16
                assert(value@.skip(1) =~= attr_str@.skip(f + 1)); // @props C16
            }''')
    u.before(AN, r'\(attr_str, ""\)', '            proof { assert(""@ =~= whole.subrange(t, t)); assert(""@ =~= Seq::<char>::empty()); ka = 0; kb = t; va = t; vb = t; }')
    u.before(AN, r'Some\(\(str_trim\(key\)', '''        proof {
            assert(0 <= ka <= kb <= va <= vb <= n);
            assert(key@ == whole.subrange(ka, kb) && value@ == whole.subrange(va, vb));
            let g = la_seg(whole); let f = first_index(g, '=');
            assert(key@ == (if f < g.len() { g.take(f) } else { g })); // @props C16
            assert(value@ == (if f < g.len() { g.skip(f + 1) } else { Seq::<char>::empty() })); // @props C16
            lemma_sub_of_sub(whole, key@, ka, kb);
            lemma_sub_of_sub(whole, value@, va, vb);
        }''')
    u.finish(common.HEAD)
    return u
