"""Unit `lrt` (lemmas only): the link-format round trip (C16) as a theorem over contracts.

  writer   unit lfw proves on the real writer that the sink holds exactly the text out_link / out_quoted /
           out_plain / out_u32 (generated from the write calls of the code) when no write fails;
  scanners unit lfp proves on the real LinkFormatParser::next / LinkAttributeParser::next that each call
           returns exactly lf_link / lf_attrs / lf_rest and la_key / la_value / la_rest of its input;
  unquote  unit unq proves that Unquote yields unq(NotStarted, text).
This unit proves, over those spec functions only, that parsing the text of any document (links
without '>', keys without separators, values written by attr_quoted / attr / attr_u32) gives the
document back: same links in order, same keys in order, unquoted values equal to the originals.
No executable code here; the writer's text functions are taken from unit lfw's generator so
that they are the ones the writer contract is proved against."""
import re

from vf.unit import Unit
from vf.rustsrc import ExtractError
from . import common, lfw

NAME = 'lrt'
PROPS = ['C16']
RLIMIT = 60

SPEC = r'''
// ---- facts about characters (assumed): the double quote is not white space; decimal digits are plain
pub broadcast axiom fn axiom_quote_not_ws() ensures !#[trigger] is_uws('"');

// ---- A. escaping, from the front
proof fn lemma_esc_all_cons(c: char, s: Seq<char>)
    ensures esc_all(seq![c] + s) == esc(c) + esc_all(s)
    decreases s.len()
{
    if s.len() == 0 {
        assert(seq![c] + s =~= seq![c]);
        assert(seq![c].drop_last() =~= Seq::<char>::empty());
        assert(esc_all(Seq::<char>::empty()) =~= Seq::<char>::empty());
        assert(seq![c].last() == c);
        assert(esc_all(seq![c]) == esc_all(seq![c].drop_last()) + esc(c));
        assert(esc_all(seq![c]) =~= esc(c));
        assert(esc(c) + esc_all(s) =~= esc(c));
    } else {
        let t = seq![c] + s;
        assert(t.drop_last() =~= seq![c] + s.drop_last());
        assert(t.last() == s.last());
        lemma_esc_all_cons(c, s.drop_last());
        assert(esc_all(t) == esc_all(seq![c] + s.drop_last()) + esc(s.last()));
        assert((esc(c) + esc_all(s.drop_last())) + esc(s.last()) =~= esc(c) + (esc_all(s.drop_last()) + esc(s.last())));
    }
}
pub open spec fn special(c: char) -> bool { c == '"' || c == '\\' }
proof fn lemma_esc_shape(c: char)
    ensures special(c) ==> esc(c) =~= seq!['\\', c], !special(c) ==> esc(c) =~= seq![c]
{}
// ---- B. unquoting an escaped text gives the text back (whatever follows the closing quote)
proof fn lemma_unq_esc(v: Seq<char>, tail: Seq<char>)
    ensures unq_quoted(esc_all(v) + seq!['"'] + tail) == v
    decreases v.len()
{
    if v.len() == 0 {
        assert(esc_all(v) =~= Seq::<char>::empty());
        let s = esc_all(v) + seq!['"'] + tail;
        assert(s[0] == '"');
        assert(unq_quoted(s) =~= v);
    } else {
        let c = v[0]; let w = v.skip(1);
        assert(v =~= seq![c] + w);
        lemma_esc_all_cons(c, w);
        lemma_esc_shape(c);
        lemma_unq_esc(w, tail);
        let x = esc_all(w) + seq!['"'] + tail;
        let s = esc_all(v) + seq!['"'] + tail;
        if special(c) {
            assert(s =~= seq!['\\', c] + x);
            assert(s.skip(2) =~= x);
            assert(unq_quoted(s) == seq![c] + unq_quoted(x));
        } else {
            assert(s =~= seq![c] + x);
            assert(s.skip(1) =~= x);
            assert(unq_quoted(s) == seq![c] + unq_quoted(x));
        }
        assert(seq![c] + w =~= v);
    }
}
// ---- C. the quote-aware scan passes over an escaped text and its closing quote
proof fn lemma_scan_in_esc(v: Seq<char>, rest: Seq<char>, stop: char)
    ensures scan_in(esc_all(v) + seq!['"'] + rest, stop) == esc_all(v).len() + 1 + scan_out(rest, stop)
    decreases v.len()
{
    if v.len() == 0 {
        assert(esc_all(v) =~= Seq::<char>::empty());
        let s = esc_all(v) + seq!['"'] + rest;
        assert(s[0] == '"');
        assert(s.skip(1) =~= rest);
    } else {
        let c = v[0]; let w = v.skip(1);
        assert(v =~= seq![c] + w);
        lemma_esc_all_cons(c, w);
        lemma_esc_shape(c);
        lemma_scan_in_esc(w, rest, stop);
        let x = esc_all(w) + seq!['"'] + rest;
        let s = esc_all(v) + seq!['"'] + rest;
        if special(c) {
            assert(s =~= seq!['\\', c] + x);
            assert(s.skip(2) =~= x);
            assert(esc_all(v).len() == 2 + esc_all(w).len());
        } else {
            assert(s =~= seq![c] + x);
            assert(s.skip(1) =~= x);
            assert(esc_all(v).len() == 1 + esc_all(w).len());
        }
    }
}
// ---- D. ... and over text that contains neither the stop character nor a quote
pub open spec fn free_of(p: Seq<char>, a: char, b: char) -> bool { forall|i: int| 0 <= i < p.len() ==> p[i] != a && p[i] != b }
proof fn lemma_scan_out_plain(p: Seq<char>, rest: Seq<char>, stop: char)
    requires free_of(p, stop, '"')
    ensures scan_out(p + rest, stop) == p.len() + scan_out(rest, stop)
    decreases p.len()
{
    if p.len() == 0 { assert(p + rest =~= rest); }
    else {
        let s = p + rest;
        assert(s[0] == p[0]);
        assert(s.skip(1) =~= p.skip(1) + rest);
        assert forall|i: int| 0 <= i < p.skip(1).len() implies p.skip(1)[i] != stop && p.skip(1)[i] != '"' by { assert(p.skip(1)[i] == p[i + 1]); }
        lemma_scan_out_plain(p.skip(1), rest, stop);
    }
}

// ---- values as the writer emits them
pub enum Val { Quoted(Seq<char>), Plain(Seq<char>), Num(u32) }
pub open spec fn val_text(v: Val) -> Seq<char> {
    match v { Val::Quoted(t) => seq!['"'] + esc_all(t) + seq!['"'], Val::Plain(p) => p, Val::Num(n) => dec_digits(n) }
}
// the "original string" of a value
pub open spec fn val_orig(v: Val) -> Seq<char> { match v { Val::Quoted(t) => t, Val::Plain(p) => p, Val::Num(n) => dec_digits(n) } }
// text written without quotes must not contain a separator or a quote, nor begin or end with white space
pub open spec fn plain_ok(p: Seq<char>) -> bool {
    &&& forall|i: int| 0 <= i < p.len() ==> p[i] != ';' && p[i] != ',' && p[i] != '"'
    &&& (p.len() > 0 ==> !is_uws(p[0]) && !is_uws(p.last()))
}
pub open spec fn key_ok(k: Seq<char>) -> bool { plain_ok(k) && forall|i: int| 0 <= i < k.len() ==> k[i] != '=' }
pub open spec fn val_ok(v: Val) -> bool { match v { Val::Quoted(t) => true, Val::Plain(p) => plain_ok(p), Val::Num(n) => true } }
// std formatting of an integer: a non-empty string of decimal digits (assumed)
pub broadcast axiom fn axiom_dec_digits_plain(n: u32) ensures plain_ok(#[trigger] dec_digits(n)), dec_digits(n).len() > 0;
pub open spec fn body(k: Seq<char>, v: Val) -> Seq<char> { k + seq!['='] + val_text(v) }
pub open spec fn sep_stop(c: char) -> bool { c == ';' || c == ',' }

// ---- E. the scan passes over one attribute body
proof fn lemma_scan_body(k: Seq<char>, v: Val, rest: Seq<char>, stop: char)
    requires key_ok(k), val_ok(v), sep_stop(stop)
    ensures scan_out(body(k, v) + rest, stop) == body(k, v).len() + scan_out(rest, stop)
{
    broadcast use axiom_dec_digits_plain;
    let vt = val_text(v);
    let r1 = seq!['='] + (vt + rest);
    assert(body(k, v) + rest =~= k + r1);
    lemma_scan_out_plain(k, r1, stop);
    lemma_scan_out_plain(seq!['='], vt + rest, stop);
    match v {
        Val::Quoted(t) => {
            let x = esc_all(t) + seq!['"'] + rest;
            assert(vt + rest =~= seq!['"'] + x);
            assert((vt + rest).skip(1) =~= x);
            assert((vt + rest)[0] == '"');
            lemma_scan_in_esc(t, rest, stop);
        }
        Val::Plain(p) => { lemma_scan_out_plain(p, rest, stop); }
        Val::Num(n) => { lemma_scan_out_plain(dec_digits(n), rest, stop); }
    }
}
proof fn lemma_body_ends(k: Seq<char>, v: Val)
    requires key_ok(k), val_ok(v)
    ensures body(k, v).len() > 0, !sep_stop(body(k, v).last()), !sep_stop(body(k, v)[0]),
        val_text(v).len() > 0 ==> !is_uws(val_text(v)[0]) && !is_uws(val_text(v).last())
{
    broadcast use axiom_dec_digits_plain; broadcast use axiom_quote_not_ws;
    let b = body(k, v);
    if k.len() > 0 { assert(b[0] == k[0]); } else { assert(b[0] == '='); }
    let vt = val_text(v);
    if vt.len() > 0 { assert(b.last() == vt.last()); } else { assert(b.last() == '='); }
    match v {
        Val::Quoted(t) => { assert(vt.last() == '"'); assert(vt[0] == '"'); }
        Val::Plain(p) => {}
        Val::Num(n) => {}
    }
}
proof fn lemma_trim_ws_id(s: Seq<char>)
    requires s.len() == 0 || (!is_uws(s[0]) && !is_uws(s.last()))
    ensures trim_start_ws(trim_end_ws(s)) == s
{}
proof fn lemma_trim_end_one(b: Seq<char>, c: char)
    requires b.len() > 0, b.last() != c
    ensures trim_end_of(b, c) == b, trim_end_of(b.push(c), c) == b
{
    assert(b.push(c).drop_last() =~= b);
}
proof fn lemma_first_index_after(k: Seq<char>, c: char, x: Seq<char>)
    requires forall|i: int| 0 <= i < k.len() ==> k[i] != c
    ensures first_index(k + seq![c] + x, c) == k.len()
    decreases k.len()
{
    let s = k + seq![c] + x;
    if k.len() == 0 { assert(s[0] == c); }
    else {
        assert(s[0] == k[0]);
        assert(s.skip(1) =~= k.skip(1) + seq![c] + x);
        assert forall|i: int| 0 <= i < k.skip(1).len() implies k.skip(1)[i] != c by { assert(k.skip(1)[i] == k[i + 1]); }
        lemma_first_index_after(k.skip(1), c, x);
    }
}
// ---- H. one step of the attribute scanner on  body ++ ( nothing | ';' more )
proof fn lemma_attr_step(k: Seq<char>, v: Val, tail: Seq<char>, more: Seq<char>)
    requires key_ok(k), val_ok(v), tail.len() == 0 || tail == seq![';'] + more
    ensures ({ let s = body(k, v) + tail;
        &&& la_key(s) == k
        &&& la_value(s) == val_text(v)
        &&& la_rest(s) == (if tail.len() == 0 { Seq::<char>::empty() } else { more }) })
{
    let b = body(k, v); let s = b + tail;
    lemma_scan_body(k, v, tail, ';');
    lemma_body_ends(k, v);
    if tail.len() == 0 {
        assert(s =~= b);
        assert(scan_out(tail, ';') == 0);
        assert(s.take(b.len() as int) =~= b);
        lemma_trim_end_one(b, ';');
        assert(s.skip(b.len() as int) =~= Seq::<char>::empty());
    } else {
        assert(tail[0] == ';');
        assert(scan_out(tail, ';') == 1);
        assert(s.take(b.len() as int + 1) =~= b.push(';'));
        lemma_trim_end_one(b, ';');
        assert(s.skip(b.len() as int + 1) =~= more);
    }
    assert(la_seg(s) == b);
    lemma_first_index_after(k, '=', val_text(v));
    assert(b.take(k.len() as int) =~= k);
    assert(b.skip(k.len() as int + 1) =~= val_text(v));
    lemma_trim_ws_id(k);
    lemma_trim_ws_id(val_text(v));
}

// ---- the attribute list of one link
pub open spec fn attrs_ok(l: Seq<(Seq<char>, Val)>) -> bool { forall|i: int| 0 <= i < l.len() ==> key_ok(#[trigger] l[i].0) && val_ok(l[i].1) }
// bodies joined by ';' (what LinkFormatParser hands to LinkAttributeParser)
pub open spec fn joined(l: Seq<(Seq<char>, Val)>) -> Seq<char>
    decreases l.len()
{
    if l.len() == 0 { Seq::empty() } else if l.len() == 1 { body(l[0].0, l[0].1) }
    else { body(l[0].0, l[0].1) + seq![';'] + joined(l.skip(1)) }
}
// what a fresh Unquote yields for a value text (== unq(NotStarted, text) of unit unq)
pub open spec fn unq_fresh(s: Seq<char>) -> Seq<char> { if s.len() > 0 && s[0] == '"' { unq_quoted(s.skip(1)) } else { s } }
// iterating LinkAttributeParser to exhaustion: (key, unquoted value) per step
pub open spec fn parse_attrs(s: Seq<char>, fuel: nat) -> Seq<(Seq<char>, Seq<char>)>
    decreases fuel
{ if fuel == 0 || s.len() == 0 { Seq::empty() } else { seq![(la_key(s), unq_fresh(la_value(s)))] + parse_attrs(la_rest(s), (fuel - 1) as nat) } }
pub open spec fn attrs_orig(l: Seq<(Seq<char>, Val)>) -> Seq<(Seq<char>, Seq<char>)> { Seq::new(l.len(), |i: int| (l[i].0, val_orig(l[i].1))) }

proof fn lemma_unq_value(v: Val)
    requires val_ok(v)
    ensures unq_fresh(val_text(v)) == val_orig(v)
{
    broadcast use axiom_dec_digits_plain;
    match v {
        Val::Quoted(t) => {
            let vt = val_text(v);
            assert(vt[0] == '"');
            assert(vt.skip(1) =~= esc_all(t) + seq!['"'] + Seq::<char>::empty());
            lemma_unq_esc(t, Seq::<char>::empty());
        }
        Val::Plain(p) => {}
        Val::Num(n) => {}
    }
}
proof fn lemma_joined_nonempty(l: Seq<(Seq<char>, Val)>)
    requires l.len() > 0
    ensures joined(l).len() > 0
{}
// C16 (attributes): parsing the joined bodies gives keys and original values back, in order
proof fn lemma_parse_attrs(l: Seq<(Seq<char>, Val)>, fuel: nat)
    requires attrs_ok(l), fuel >= l.len()
    ensures parse_attrs(joined(l), fuel) == attrs_orig(l)
    decreases l.len()
{
    if l.len() == 0 {
        assert(parse_attrs(joined(l), fuel) =~= attrs_orig(l));
    } else {
        let k = l[0].0; let v = l[0].1;
        let rest = l.skip(1);
        lemma_attrs_ok_skip(l);
        assert(attrs_ok(rest));
        assert(fuel - 1 >= rest.len());
        let more = joined(rest);
        let tail = if l.len() == 1 { Seq::<char>::empty() } else { seq![';'] + more };
        let s = joined(l);
        assert(s =~= body(k, v) + tail);
        lemma_attr_step(k, v, tail, more);
        lemma_unq_value(v);
        assert(s.len() > 0);
        if l.len() > 1 { lemma_joined_nonempty(rest); } else { assert(more =~= Seq::<char>::empty()); }
        lemma_parse_attrs(rest, (fuel - 1) as nat);
        assert(la_rest(s) == more);
        assert(parse_attrs(s, fuel) == seq![(k, val_orig(v))] + parse_attrs(more, (fuel - 1) as nat));
        assert(seq![(k, val_orig(v))] + attrs_orig(rest) =~= attrs_orig(l)) by {
            assert forall|i: int| 0 <= i < l.len() implies (seq![(k, val_orig(v))] + attrs_orig(rest))[i] == attrs_orig(l)[i] by {
                if i > 0 { assert(rest[i - 1] == l[i]); }
            }
        }
    }
}

// ---- one link as the writer emits it:  '<' target '>' ( ';' key '=' value )*
pub open spec fn attrs_text(l: Seq<(Seq<char>, Val)>) -> Seq<char>
    decreases l.len()
{ if l.len() == 0 { Seq::empty() } else { seq![';'] + body(l[0].0, l[0].1) + attrs_text(l.skip(1)) } }
pub open spec fn link_ok(t: Seq<char>) -> bool { forall|i: int| 0 <= i < t.len() ==> t[i] != '>' }
pub open spec fn item_text(t: Seq<char>, l: Seq<(Seq<char>, Val)>) -> Seq<char> { seq!['<'] + t + seq!['>'] + attrs_text(l) }
pub open spec fn all_ws(w: Seq<char>) -> bool { forall|i: int| 0 <= i < w.len() ==> is_ws(w[i]) }

proof fn lemma_attrs_ok_skip(l: Seq<(Seq<char>, Val)>)
    requires attrs_ok(l), l.len() > 0
    ensures attrs_ok(l.skip(1)), key_ok(l[0].0), val_ok(l[0].1)
{
    assert(key_ok(l[0].0) && val_ok(l[0].1));
    assert forall|i: int| 0 <= i < l.skip(1).len() implies key_ok(#[trigger] l.skip(1)[i].0) && val_ok(l.skip(1)[i].1) by {
        assert(l.skip(1)[i] == l[i + 1]);
        assert(key_ok(l[i + 1].0) && val_ok(l[i + 1].1));
    }
}
proof fn lemma_trim_end_empty(c: char)
    ensures trim_end_of(Seq::<char>::empty(), c) == Seq::<char>::empty(), trim_end_of(Seq::<char>::empty().push(c), c) == Seq::<char>::empty()
{
    assert(Seq::<char>::empty().push(c).drop_last() =~= Seq::<char>::empty());
}
proof fn lemma_attrs_text_joined(l: Seq<(Seq<char>, Val)>)
    requires l.len() > 0
    ensures attrs_text(l) == seq![';'] + joined(l)
    decreases l.len()
{
    if l.len() == 1 {
        assert(l.skip(1).len() == 0);
        assert(attrs_text(l.skip(1)) =~= Seq::<char>::empty());
        assert(attrs_text(l) =~= seq![';'] + joined(l));
    } else {
        lemma_attrs_text_joined(l.skip(1));
        assert(attrs_text(l) =~= seq![';'] + joined(l));
    }
}
proof fn lemma_attrs_text_ends(l: Seq<(Seq<char>, Val)>)
    requires attrs_ok(l), l.len() > 0
    ensures attrs_text(l).len() > 0, !sep_stop(attrs_text(l).last()), joined(l).len() > 0, !sep_stop(joined(l)[0])
    decreases l.len()
{
    lemma_attrs_ok_skip(l);
    lemma_body_ends(l[0].0, l[0].1);
    let b = body(l[0].0, l[0].1);
    if l.len() == 1 {
        assert(attrs_text(l.skip(1)) =~= Seq::<char>::empty());
        assert(attrs_text(l) =~= seq![';'] + b);
        assert(attrs_text(l).last() == b.last());
    } else {
        lemma_attrs_text_ends(l.skip(1));
        let r = attrs_text(l.skip(1));
        assert(attrs_text(l).last() == r.last());
        assert(joined(l)[0] == b[0]);
    }
}
// ---- F. the link scanner passes over the whole attribute text
proof fn lemma_scan_attrs_text(l: Seq<(Seq<char>, Val)>, rest: Seq<char>)
    requires attrs_ok(l)
    ensures scan_out(attrs_text(l) + rest, ',') == attrs_text(l).len() + scan_out(rest, ',')
    decreases l.len()
{
    if l.len() == 0 { assert(attrs_text(l) + rest =~= rest); }
    else {
        lemma_attrs_ok_skip(l);
        let b = body(l[0].0, l[0].1); let r = attrs_text(l.skip(1));
        assert(attrs_text(l) + rest =~= seq![';'] + (b + (r + rest)));
        lemma_scan_out_plain(seq![';'], b + (r + rest), ',');
        lemma_scan_body(l[0].0, l[0].1, r + rest, ',');
        lemma_scan_attrs_text(l.skip(1), rest);
    }
}
proof fn lemma_skip_ws_prefix(w: Seq<char>, x: Seq<char>)
    requires all_ws(w), x.len() > 0, !is_ws(x[0])
    ensures skip_ws(w + x) == w.len()
    decreases w.len()
{
    if w.len() == 0 { assert(w + x =~= x); }
    else {
        let s = w + x;
        assert(s[0] == w[0]);
        assert(s.skip(1) =~= w.skip(1) + x);
        assert forall|i: int| 0 <= i < w.skip(1).len() implies is_ws(w.skip(1)[i]) by { assert(w.skip(1)[i] == w[i + 1]); }
        lemma_skip_ws_prefix(w.skip(1), x);
    }
}
proof fn lemma_trim_end_none(s: Seq<char>, c: char)
    requires s.len() == 0 || s.last() != c
    ensures trim_end_of(s, c) == s
{}
proof fn lemma_trim_start_one(j: Seq<char>, c: char)
    requires j.len() == 0 || j[0] != c
    ensures trim_start_of(j, c) == j, trim_start_of(seq![c] + j, c) == j
{
    let x = seq![c] + j;
    assert(x.skip(1) =~= j);
    assert(x.len() > 0 && x[0] == c);
    assert(trim_start_of(x, c) == trim_start_of(x.skip(1), c));
}
// ---- I. one step of the link scanner on  white-space ++ item ++ ( nothing | ',' rest )
proof fn lemma_link_step(w: Seq<char>, t: Seq<char>, l: Seq<(Seq<char>, Val)>, tail: Seq<char>, rest: Seq<char>)
    requires all_ws(w), link_ok(t), attrs_ok(l), tail.len() == 0 || tail == seq![','] + rest
    ensures ({ let s = w + item_text(t, l) + tail;
        &&& skip_ws(s) == w.len() && skip_ws(s) < s.len() && s[skip_ws(s)] == '<'
        &&& lf_link(s) == t
        &&& lf_attrs(s) == joined(l)
        &&& lf_rest(s) == (if tail.len() == 0 { Seq::<char>::empty() } else { rest }) })
{
    let at = attrs_text(l);
    let s = w + item_text(t, l) + tail;
    let x = item_text(t, l) + tail;
    assert(s =~= w + x);
    assert(x[0] == '<');
    lemma_skip_ws_prefix(w, x);
    assert(s[w.len() as int] == '<');
    let a = lf_after_lt(s);
    assert(a =~= t + seq!['>'] + (at + tail));
    lemma_first_index_after(t, '>', at + tail);
    assert(lf_link_end(a) == t.len() + 1);
    assert(a.take(t.len() as int + 1) =~= t.push('>'));
    if t.len() > 0 { assert(t.last() != '>'); lemma_trim_end_one(t, '>'); } else { assert(t =~= Seq::<char>::empty()); lemma_trim_end_empty('>'); }
    assert(lf_link(s) == t);
    let b = lf_attr_text(s);
    assert(b =~= at + tail);
    lemma_scan_attrs_text(l, tail);
    let e = scan_out(b, ',');
    if tail.len() == 0 {
        assert(scan_out(tail, ',') == 0);
        assert(b.take(e) =~= at);
        assert(b.skip(e) =~= Seq::<char>::empty());
    } else {
        assert(tail[0] == ',');
        assert(scan_out(tail, ',') == 1);
        assert(b.take(e) =~= at.push(','));
        assert(b.skip(e) =~= rest);
    }
    if l.len() == 0 {
        assert(at =~= Seq::<char>::empty());
        lemma_trim_end_empty(','); lemma_trim_end_empty(';');
        assert(trim_end_of(b.take(e), ',') =~= at);
        assert(joined(l) =~= Seq::<char>::empty());
    } else {
        lemma_attrs_text_ends(l);
        lemma_trim_end_one(at, ',');
        lemma_trim_end_none(at, ',');
        assert(trim_end_of(b.take(e), ',') == at);
        lemma_trim_end_none(at, ';');
        lemma_attrs_text_joined(l);
        lemma_trim_start_one(joined(l), ';');
    }
}

// ---- whole documents
pub open spec fn doc_ok(d: Seq<(Seq<char>, Seq<(Seq<char>, Val)>)>) -> bool { forall|i: int| 0 <= i < d.len() ==> link_ok(#[trigger] d[i].0) && attrs_ok(d[i].1) }
pub open spec fn nl_text(nl: bool) -> Seq<char> { if nl { w_nl_text() } else { Seq::<char>::empty() } }
// every link after the first is preceded by ',' and, with the newline option, "\n\r"
pub open spec fn more_text(d: Seq<(Seq<char>, Seq<(Seq<char>, Val)>)>, nl: bool) -> Seq<char>
    decreases d.len()
{ if d.len() == 0 { Seq::empty() } else { seq![','] + (nl_text(nl) + item_text(d[0].0, d[0].1) + more_text(d.skip(1), nl)) } }
pub open spec fn doc_text(d: Seq<(Seq<char>, Seq<(Seq<char>, Val)>)>, nl: bool) -> Seq<char> {
    if d.len() == 0 { Seq::empty() } else { item_text(d[0].0, d[0].1) + more_text(d.skip(1), nl) }
}
// iterating LinkFormatParser to exhaustion: (link, attribute text) per step; None if an error is reported
pub open spec fn parse_links(s: Seq<char>, fuel: nat) -> Option<Seq<(Seq<char>, Seq<char>)>>
    decreases fuel
{
    if fuel == 0 { None } else if s.len() == 0 { Some(Seq::empty()) }
    else {
        let i = skip_ws(s);
        if i == s.len() { Some(Seq::empty()) } else if s[i] != '<' { None }
        else { match parse_links(lf_rest(s), (fuel - 1) as nat) { Some(r) => Some(seq![(lf_link(s), lf_attrs(s))] + r), None => None } }
    }
}
pub open spec fn links_expected(d: Seq<(Seq<char>, Seq<(Seq<char>, Val)>)>) -> Seq<(Seq<char>, Seq<char>)> { Seq::new(d.len(), |i: int| (d[i].0, joined(d[i].1))) }

proof fn lemma_doc_ok_skip(d: Seq<(Seq<char>, Seq<(Seq<char>, Val)>)>)
    requires doc_ok(d), d.len() > 0
    ensures doc_ok(d.skip(1)), link_ok(d[0].0), attrs_ok(d[0].1)
{
    assert(link_ok(d[0].0) && attrs_ok(d[0].1));
    assert forall|i: int| 0 <= i < d.skip(1).len() implies link_ok(#[trigger] d.skip(1)[i].0) && attrs_ok(d.skip(1)[i].1) by {
        assert(d.skip(1)[i] == d[i + 1]);
        assert(link_ok(d[i + 1].0) && attrs_ok(d[i + 1].1));
    }
}
proof fn lemma_parse_links(w: Seq<char>, d: Seq<(Seq<char>, Seq<(Seq<char>, Val)>)>, nl: bool, fuel: nat)
    requires all_ws(w), doc_ok(d), d.len() > 0, fuel > d.len()
    ensures parse_links(w + item_text(d[0].0, d[0].1) + more_text(d.skip(1), nl), fuel) == Some(links_expected(d))
    decreases d.len()
{
    lemma_doc_ok_skip(d);
    let t = d[0].0; let l = d[0].1; let dd = d.skip(1);
    let tail = more_text(dd, nl);
    let s = w + item_text(t, l) + tail;
    let rest = if dd.len() == 0 { Seq::<char>::empty() } else { nl_text(nl) + item_text(dd[0].0, dd[0].1) + more_text(dd.skip(1), nl) };
    if dd.len() > 0 { assert(tail == seq![','] + rest); } else { assert(tail =~= Seq::<char>::empty()); }
    lemma_link_step(w, t, l, tail, rest);
    assert(s.len() > 0);
    if dd.len() == 0 {
        assert(lf_rest(s) =~= Seq::<char>::empty());
        assert(parse_links(lf_rest(s), (fuel - 1) as nat) == Some(Seq::<(Seq<char>, Seq<char>)>::empty()));
        assert(seq![(t, joined(l))] + Seq::<(Seq<char>, Seq<char>)>::empty() =~= links_expected(d));
    } else {
        lemma_w_nl_ws();
        assert(all_ws(nl_text(nl)));
        lemma_parse_links(nl_text(nl), dd, nl, (fuel - 1) as nat);
        assert(lf_rest(s) == rest);
        assert(seq![(t, joined(l))] + links_expected(dd) =~= links_expected(d)) by {
            assert forall|i: int| 0 <= i < d.len() implies (seq![(t, joined(l))] + links_expected(dd))[i] == links_expected(d)[i] by {
                if i > 0 { assert(dd[i - 1] == d[i]); }
            }
        }
    }
}
// ---- C16: parsing the text of a document gives the document back
proof fn theorem_link_format_roundtrip(d: Seq<(Seq<char>, Seq<(Seq<char>, Val)>)>, nl: bool)
    requires doc_ok(d)
    ensures
        // the same links, in order, each with the text of its attributes ...
        parse_links(doc_text(d, nl), d.len() + 1) == Some(links_expected(d)),
        // ... which parses to the same keys, in order, and values that unquote to the original strings
        forall|i: int| 0 <= i < d.len() ==> parse_attrs(joined(#[trigger] d[i].1), d[i].1.len()) == attrs_orig(d[i].1),
{
    if d.len() == 0 {
        assert(links_expected(d) =~= Seq::<(Seq<char>, Seq<char>)>::empty());
    } else {
        let w = Seq::<char>::empty();
        assert(w + item_text(d[0].0, d[0].1) + more_text(d.skip(1), nl) =~= doc_text(d, nl));
        lemma_parse_links(w, d, nl, d.len() + 1);
    }
    assert forall|i: int| 0 <= i < d.len() implies parse_attrs(joined(#[trigger] d[i].1), d[i].1.len()) == attrs_orig(d[i].1) by {
        assert(link_ok(d[i].0) && attrs_ok(d[i].1));
        lemma_parse_attrs(d[i].1, d[i].1.len());
    }
}
// ---- the text the writer produces for a document, call by call: link(t) then one attr*() per attribute
pub open spec fn w_link(first: bool, nl: bool, t: Seq<char>) -> Seq<char> { (if first { Seq::<char>::empty() } else { seq![','] + nl_text(nl) }) + (seq!['<'] + t + seq!['>']) }
pub open spec fn written(d: Seq<(Seq<char>, Seq<(Seq<char>, Val)>)>, nl: bool, first: bool) -> Seq<char>
    decreases d.len()
{ if d.len() == 0 { Seq::empty() } else { w_link(first, nl, d[0].0) + attrs_text(d[0].1) + written(d.skip(1), nl, false) } }
proof fn lemma_written_more(d: Seq<(Seq<char>, Seq<(Seq<char>, Val)>)>, nl: bool)
    ensures written(d, nl, false) == more_text(d, nl)
    decreases d.len()
{
    if d.len() > 0 {
        lemma_written_more(d.skip(1), nl);
        assert(written(d, nl, false) =~= more_text(d, nl));
    }
}
proof fn lemma_written_doc(d: Seq<(Seq<char>, Seq<(Seq<char>, Val)>)>, nl: bool)
    ensures written(d, nl, true) == doc_text(d, nl)
{
    if d.len() > 0 {
        lemma_written_more(d.skip(1), nl);
        assert(written(d, nl, true) =~= doc_text(d, nl));
    }
}
// C16 in terms of what the writer writes: link(t_0) attr*(..)... link(t_1) ... with nothing failing
proof fn theorem_written_roundtrip(d: Seq<(Seq<char>, Seq<(Seq<char>, Val)>)>, nl: bool)
    requires doc_ok(d)
    ensures parse_links(written(d, nl, true), d.len() + 1) == Some(links_expected(d)),
        forall|i: int| 0 <= i < d.len() ==> parse_attrs(joined(#[trigger] d[i].1), d[i].1.len()) == attrs_orig(d[i].1),
{
    lemma_written_doc(d, nl);
    theorem_link_format_roundtrip(d, nl);
}
// ---- attr(key, value): quoted exactly when the code's predicate attr_quotes holds for some character (generated from the
// closure in the code); written bare, the value must be plain - that is where the quoting decision matters for C16
// (unit lfw lets attr() write the quoted form for any value and the plain form only if !attr_quoted_for(v): Quoted(v) is always
// fine, val_ok(Val::Quoted(_)) == true, and the plain case is the lemma below)
pub open spec fn attr_val(v: Seq<char>) -> Val { if attr_quoted_for(v) { Val::Quoted(v) } else { Val::Plain(v) } }
proof fn lemma_attr_val_ok(v: Seq<char>)
    ensures val_ok(attr_val(v)), val_orig(attr_val(v)) == v
{
    broadcast use axiom_alnum_not_ws;
    if !attr_quoted_for(v) {
        assert forall|i: int| 0 <= i < v.len() implies v[i] != ';' && v[i] != ',' && v[i] != '"' && !is_uws(v[i]) by {
            assert(!attr_quotes(v[i]));
        }
        if v.len() > 0 { assert(!is_uws(v[0]) && !is_uws(v.last())); }
    }
}
// ---- the document text is made of the writer's fault-free texts (unit lfw)
proof fn lemma_writer_pieces(first: bool, nl: bool, link: &str, key: &str, value: &str, n: u32)
    ensures
        out_link(first, nl, link) == w_link(first, nl, link@),
        out_quoted(key, value) == seq![';'] + body(key@, Val::Quoted(value@)),
        out_plain(key, value) == seq![';'] + body(key@, Val::Plain(value@)),
        out_u32(key, n) == seq![';'] + body(key@, Val::Num(n)),
        (if attr_quoted_for(value@) { out_quoted(key, value) } else { out_plain(key, value) }) == seq![';'] + body(key@, attr_val(value@)),
{
    assert(out_link(first, nl, link) =~= w_link(first, nl, link@));
    assert(out_quoted(key, value) =~= seq![';'] + body(key@, Val::Quoted(value@)));
    assert(out_plain(key, value) =~= seq![';'] + body(key@, Val::Plain(value@)));
    assert(out_u32(key, n) =~= seq![';'] + body(key@, Val::Num(n)));
}
'''


def writer_texts(repo):
    """the fault-free text functions generated by unit lfw from the writer's code (esc, out_link, out_key, ...)"""
    u = lfw.build_variant(repo, True)
    t = u.text
    a = t.index('// ---- generated from the write calls of link_format.rs')
    b = t.index('// <<< code', a)
    gen = t[a:b]
    consts = '\n'.join(re.findall(r"pub const (?:QUOTE_ESCAPE_CHAR|ATTR_SEPARATOR_CHAR|LINK_SEPARATOR_CHAR): char = '(?:\\.|[^'\\])';", t))
    m = re.search(r'pub open spec fn esc_all\(s: Seq<char>\) -> Seq<char>\s*decreases s\.len\(\)\s*\{[^\n]*\}', t)
    d = re.search(r'pub uninterp spec fn dec_digits\(v: u32\) -> Seq<char>;', t)
    if not (m and d and consts.count('pub const') == 3):
        raise ExtractError('unit lrt: writer text functions not found in unit lfw')
    # the text written after the separator when newlines are on: whatever the code writes, as long as the scanner skips it
    nm = re.search(r'if newlines \{ (.*?) \} else \{ Seq::<char>::empty\(\) \}', gen)
    if not nm:
        raise ExtractError('unit lrt: newline chunk not found in out_link')
    chunk = nm.group(1)
    lm = re.fullmatch(r'\("((?:[^"\\]|\\.)*)"\)@', chunk)
    cm = re.fullmatch(r"seq!\[('(?:[^'\\]|\\.)'|[A-Z][A-Z0-9_]*)\]", chunk)
    if lm:
        n = len(re.findall(r'\\.|[^\\]', lm.group(1)))
        hints = 'reveal_strlit("%s"); assert(w_nl_text().len() == %d); ' % (lm.group(1), n) + ' '.join('assert(is_ws(w_nl_text()[%d]));' % i for i in range(n))
    elif cm:
        hints = 'assert(is_ws(w_nl_text()[0]));'
    else:
        raise ExtractError('unit lrt: newline chunk is neither a string nor a character literal: ' + chunk)
    extra = '''
pub open spec fn w_nl_text() -> Seq<char> { %s }
// what the writer puts after the separator is ASCII white space (which the link scanner skips)
proof fn lemma_w_nl_ws() ensures forall|i: int| 0 <= i < w_nl_text().len() ==> is_ws(w_nl_text()[i]) { %s }
''' % (chunk, hints)
    return consts + '\n' + d.group(0) + '\n' + m.group(0) + '\n' + gen + extra


def build(repo):
    u = Unit(NAME, repo)
    u.raw('use vstd::std_specs::iter::IteratorSpec;\n', 'units/lrt.py')
    u.prelude('charclass.rs', 'strmodel.rs', 'lfscan.rs', 'unqspec.rs')
    u.raw(writer_texts(repo), 'units/lfw.py (generated from /repo/src/link_format.rs)')
    u.raw(SPEC, 'units/lrt.py')
    u.assemble()
    for l in re.findall(r'proof fn (\w+)', SPEC) + ['lemma_w_nl_ws']:
        u.probe(l)
    u.finish(common.HEAD)
    return u
