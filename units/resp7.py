"""Unit `resp7`: the part of unit resp that C07 depends on (CoapResponse::new, CoapRequest::from_packet / apply_from_error,
Packet::set_content_format, create_notification) - without the closure-heavy getters."""
from . import resp

NAME = 'resp7'
PROPS = ['C07']
RLIMIT = 30


def build(repo):
    return resp.build(repo, variant='resp7')
