"""Unit `neg`: negotiate_block_size_if_necessary read verbatim against neg_post (the contract unit blk assumes for
it), with BlockValue::new / size() represented by the contracts the complete Kani harnesses block_new_contract /
block_size_is_power prove.  This closes the hand-kept correspondence between the Kani assertions and neg_post:
the same predicate text is proved here on the real body, for all inputs (C10, C11)."""
import re

from vf.unit import Unit
from . import common, blk

NAME = 'neg'
PROPS = ['C10', 'C11']
RLIMIT = 60

BH = blk.BH

SPEC = r'''
use core::cmp::min;
// core::cmp::min at usize (std)
#[verifier::external_body]
fn min_usize(a: usize, b: usize) -> (r: usize) ensures r == (if a <= b { a } else { b }) { min(a, b) }
pub struct HandlingError { pub code: Option<ResponseType>, pub message: String }
impl HandlingError {
    #[verifier::external_body] pub fn internal<T>(e: T) -> (r: Self) ensures r.code == Some(ResponseType::InternalServerError) { unimplemented!() }
}
#[verifier::external_body] fn fmt_stub() -> String { unimplemented!() }
pub struct InvalidBlockValue { pub dummy: u8 }
pub struct BlockValue { pub num: u16, pub more: bool, pub size_exponent: u8 }
pub open spec fn sz(e: u8) -> int { if e == 0 { 16 } else if e == 1 { 32 } else if e == 2 { 64 } else if e == 3 { 128 } else if e == 4 { 256 } else if e == 5 { 512 } else if e == 6 { 1024 } else { 2048 } }
impl BlockValue {
    // contracts proved on the real functions by the complete Kani harnesses block_new_contract / block_size_is_power
    #[verifier::external_body]
    pub fn new(num: usize, more: bool, size: usize) -> (r: Result<Self, InvalidBlockValue>)
        ensures
            (r is Ok) == (size != 0 && size < 4096 && num <= 0xFFFF),
            r is Ok ==> r->Ok_0.num == num && r->Ok_0.more == more && r->Ok_0.size_exponent <= 7
                && (sz(r->Ok_0.size_exponent) <= size || r->Ok_0.size_exponent == 0)
                && (size < 16 || size < 2 * sz(r->Ok_0.size_exponent)),
    { unimplemented!() }
    #[verifier::external_body]
    pub fn size(&self) -> (r: usize) requires self.size_exponent <= 7 ensures r == sz(self.size_exponent) { unimplemented!() }
}
pub struct BlockHandler<Endpoint: Ord + Clone> { pub e: Option<Endpoint> }
'''


def build(repo):
    u = Unit(NAME, repo)
    u.raw(common.registry.class_spec(), 'spec/registry.py:class_spec')
    m = re.search(r'pub open spec fn neg_post.*?\npub open spec fn deref_opt[^\n]*\n', blk.SPEC, re.S)
    u.raw(SPEC + m.group(0), 'units/neg.py + neg_post from units/blk.py')
    u.items('header.rs', 'pub enum MessageClass', 'impl From<u8> for MessageClass', 'impl From<MessageClass> for u8', 'pub enum RequestType', 'pub enum ResponseType')
    u.item('block_handler/mod.rs', 'const BLOCK_OPTIONS_MAX_LENGTH')
    u.impl_fns('block_handler/mod.rs', BH, ['negotiate_block_size_if_necessary'])
    u.assemble()
    NG = (BH, 'negotiate_block_size_if_necessary')
    u.rule('R9:format!', r'format!\((?:[^()]|\([^()]*\))*\)', 'fmt_stub()', (0, 9))
    u.rule('R17:cmp-min', r'(?<![A-Za-z0-9_.])min\(((?:[^(),]|\([^()]*\))+),\s*((?:[^(),]|\([^()]*\))+)\)', r'min_usize(\1, \2)', (1, 3))
    u.rule('R31:constructor-as-fn', r'\.map\(Some\)', '.map(|b: BlockValue| -> (o: Option<BlockValue>) ensures o == Some(b) { Some(b) })', 1)
    u.contract(NG, '''        requires request_block is Some ==> request_block->0.size_exponent <= 7, total_payload_size <= message_size, message_size <= usize::MAX / 4
        ensures neg_post(deref_opt(request_block), message_size as int, total_payload_size as int, max_total_message_size as int, r)''', props=PROPS)
    u.closure(NG, r'\|\|', '', 'e: HandlingError', 'ensures e.code is Some')
    u.before(NG, r'let reply_start_offset\s*=', '''                proof {
                    let e = request_block.size_exponent; let n = request_block.num as int; let s = sz(e);
                    assert(16 <= s <= 2048);
                    assert(n * s <= 65535 * 2048) by (nonlinear_arith) requires 0 <= n <= 65535, 0 <= s <= 2048;
                    assert(negotiated_block_size == s ==> (n * s) / s == n) by (nonlinear_arith) requires s > 0, n >= 0;
                }''')
    u.finish(common.HEAD)
    return u
