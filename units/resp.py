"""Unit `resp`: CoapResponse::new, CoapRequest::from_packet / apply_from_error (C07) and the
convenience accessors get/set_method, get/set_status, get/set_content_format,
get/set_observe_flag (C19), on top of the accessor layer of unit `acc`."""
from vf.unit import Unit
from . import common, acc

NAME = 'resp'
PROPS = ['C07', 'C19']
RLIMIT = 30

SPEC = r'''
pub use ResponseType as Status;
pub use RequestType as Method;
// text of a String as the bytes String::into_bytes yields (std, not modelled further)
pub uninterp spec fn utf8_of(s: String) -> Seq<u8>;
pub assume_specification [String::into_bytes] (s: String) -> (r: Vec<u8>)
    ensures r@ == utf8_of(s);
// Result::map_or (std): default for Err, f(value) for Ok
pub assume_specification<T, E, U, F: FnOnce(T) -> U> [Result::<T, E>::map_or] (res: Result<T, E>, default: U, f: F) -> (r: U)
    where E: core::marker::Destruct, F: core::marker::Destruct, T: core::marker::Destruct, U: core::marker::Destruct
    requires res is Ok ==> call_requires(f, (res->Ok_0,)),
    ensures res is Err ==> r == default, res is Ok ==> call_ensures(f, (res->Ok_0,), r);
pub open spec fn method_of(c: MessageClass) -> RequestType { if c is Request { c->Request_0 } else { RequestType::UnKnown } }
pub open spec fn status_of(c: MessageClass) -> ResponseType { if c is Response { c->Response_0 } else { ResponseType::UnKnown } }
// C19: every code byte reads back as the registry's method / status, unnamed ones as UnKnown
proof fn lemma_method_status_of_byte(n: u8)
    ensures
        (1 <= n <= 7) ==> u8_of_class(MessageClass::Request(method_of(class_of_u8(n)))) == n,
        !(1 <= n <= 7) ==> method_of(class_of_u8(n)) == RequestType::UnKnown,
        class_of_u8(n) is Response ==> u8_of_class(MessageClass::Response(status_of(class_of_u8(n)))) == n,
        !(class_of_u8(n) is Response) ==> status_of(class_of_u8(n)) == ResponseType::UnKnown,
{}
proof fn lemma_cf_fits_u16(f: ContentFormat) ensures usize_of_cf(f) <= 65535 {}
pub open spec fn opt_of_result<T>(r: Result<T, InvalidContentFormat>) -> Option<T> { match r { Ok(f) => Some(f), Err(_) => None } }
// what get_content_format must return for an options view (C19): the first Content-Format value,
// decoded as a uint of at most 2 bytes and looked up in the registry; anything else is None
pub open spec fn cf_of_view(v: Map<u16, Seq<Seq<u8>>>) -> Option<ContentFormat> {
    if !v.contains_key(12) || v[12].len() == 0 { None }
    else if v[12][0].len() > 2 { None }
    else { opt_of_result(cf_of_usize(be_val(v[12][0]) as usize)) }
}
pub open spec fn resp_for(req: Packet, m: Packet) -> bool {
    &&& ver_of(m.header.ver_type_tkl) == 1
    &&& type_bits_of(m.header.ver_type_tkl) == (if type_bits_of(req.header.ver_type_tkl) == 0 { 2int } else { 1int })
    &&& tkl_of(m.header.ver_type_tkl) == req.token@.len()
    &&& m.header.code == MessageClass::Response(ResponseType::Content)
    &&& m.header.message_id == req.header.message_id
    &&& m.token@ == req.token@
    &&& opts_view(m.options) == Map::<u16, Seq<Seq<u8>>>::empty()
    &&& m.payload@ == Seq::<u8>::empty()
}
'''


# variants: the full unit (C19) and two smaller ones that leave out what their property does not depend on, so that an edit
# of the closure-heavy getters (get_content_format, get_observe_flag) cannot leave C07 or C15 undecided
VARIANTS = {
    'resp': (['from_packet', 'apply_from_error', 'set_method', 'get_method', 'get_observe_flag', 'set_observe_flag'], ['set_content_format', 'get_content_format']),
    'resp7': (['from_packet', 'apply_from_error'], ['set_content_format']),
    'resp15': ([], []),
}
_CUR = {'req': VARIANTS['resp'][0]}


def extra_items(u):
    u.items('error.rs', 'pub struct HandlingError', 'pub struct InvalidContentFormat', 'pub struct InvalidObserve')
    u.items('packet.rs', 'pub enum ContentFormat', 'impl TryFrom<usize> for ContentFormat', 'impl From<ContentFormat> for usize',
            'pub enum ObserveOption', 'impl TryFrom<usize> for ObserveOption', 'impl From<ObserveOption> for usize')
    u.item('response.rs', 'pub struct CoapResponse')
    u.impl_fns('response.rs', 'impl CoapResponse', ['new', 'set_status', 'get_status'])
    u.item('request.rs', 'pub struct CoapRequest<Endpoint>')
    u.item('observe.rs', 'pub fn create_notification')
    if _CUR['req']:
        u.impl_fns('request.rs', 'impl<Endpoint> CoapRequest<Endpoint>', _CUR['req'])


def build(repo, variant='resp'):
    R = common.registry
    u = Unit(variant, repo)
    req_fns, pkt_fns = VARIANTS[variant]
    _CUR['req'] = req_fns
    acc.populate(u, extra_items=extra_items, extra_packet_fns=pkt_fns,
                 extra_spec=R.content_format_spec() + R.observe_spec() + SPEC)
    u.rule('derive-drop:Debug/Clone on CoapRequest', r'#\[derive\(Clone, Debug, PartialEq\)\]\s*pub struct (CoapRequest<Endpoint>|CoapResponse)', r'pub struct \1', 2)
    RS = 'impl CoapResponse'
    RQ = 'impl<Endpoint> CoapRequest<Endpoint>'
    P = 'impl Packet'
    present = set(req_fns) | set(pkt_fns)

    class Guarded:
        # annotation calls for functions that this variant does not contain are skipped
        def __getattr__(self, name):
            f = getattr(u, name)
            def g(fnref, *a, **k):
                if isinstance(fnref, tuple) and fnref[0] in (RQ, P) and fnref[1] in ('from_packet', 'apply_from_error', 'set_method', 'get_method', 'get_observe_flag', 'set_observe_flag', 'set_content_format', 'get_content_format') and fnref[1] not in present:
                    return None
                return f(fnref, *a, **k)
            return g
    g = Guarded()
    u.contract((RS, 'new'), '''        requires request.token@.len() <= 8
        ensures
            // prepared iff the request is Confirmable (0) or Non-confirmable (1)
            r is Some <==> type_bits_of(request.header.ver_type_tkl) <= 1,
            r is Some ==> resp_for(*request, r->0.message)''', props=['C07'])
    g.contract((RQ, 'from_packet'), '''        requires packet.token@.len() <= 8
        ensures r.message == packet, r.source == Some(source),
            r.response is Some <==> type_bits_of(packet.header.ver_type_tkl) <= 1,
            r.response is Some ==> resp_for(packet, r.response->0.message)''', props=['C07'])
    u.contract((RS, 'set_status'), '''        ensures final(self).message.header.code == MessageClass::Response(status),
            final(self).message.header.ver_type_tkl == old(self).message.header.ver_type_tkl, final(self).message.header.message_id == old(self).message.header.message_id,
            final(self).message.token == old(self).message.token, final(self).message.options == old(self).message.options, final(self).message.payload == old(self).message.payload''', props=['C19'])
    u.contract((RS, 'get_status'), '        ensures *r == status_of(self.message.header.code)', props=['C19'])
    g.contract((RQ, 'set_method'), '''        ensures final(self).message.header.code == MessageClass::Request(method),
            final(self).message.header.ver_type_tkl == old(self).message.header.ver_type_tkl, final(self).message.header.message_id == old(self).message.header.message_id,
            final(self).message.token == old(self).message.token, final(self).message.options == old(self).message.options, final(self).message.payload == old(self).message.payload,
            final(self).response == old(self).response, final(self).source == old(self).source''', props=['C19'])
    g.contract((RQ, 'get_method'), '        ensures *r == method_of(self.message.header.code)', props=['C19'])
    u.contract('create_notification', '''    requires token@.len() <= 8
    ensures
        ver_of(r.header.ver_type_tkl) == 1,
        type_bits_of(r.header.ver_type_tkl) == (if is_confirmable { 0int } else { 1int }),
        tkl_of(r.header.ver_type_tkl) == token@.len(),
        r.header.code == MessageClass::Response(ResponseType::Content),
        r.header.message_id == message_id, r.token@ == token@, r.payload@ == payload@,
        // a single Observe option carrying the sequence number as a minimal uint
        opts_view(r.options) == Map::<u16, Seq<Seq<u8>>>::empty().insert(6, seq![uint_be_min(sequence as nat)])''', props=['C15'])
    P = 'impl Packet'
    g.contract((P, 'set_content_format'), '''        ensures opts_view(final(self).options) == opts_view(old(self).options).insert(12, seq![uint_be_min(usize_of_cf(cf) as nat)]),
            same_but_options(*final(self), *old(self))''', props=['C19', 'C07'])
    g.body_start((P, 'set_content_format'), '        proof { lemma_cf_fits_u16(cf); }')
    g.contract((P, 'get_content_format'), '''        ensures
            // a value of at most 2 bytes (what the setter stores) reads back as its registry entry ...
            // (one Content-Format value, as the setter leaves it; what a message with several reports is left open - but see below)
            opts_view(self.options).contains_key(12) && opts_view(self.options)[12].len() == 1 && opts_view(self.options)[12][0].len() <= 2
                ==> r == cf_of_view(opts_view(self.options)),
            // ... nothing else is ever reported as a named format it is not
            r is Some ==> opts_view(self.options).contains_key(12) && opts_view(self.options)[12].len() > 0
                && usize_of_cf(r->0) == be_val(opts_view(self.options)[12][0])''', props=['C19'])
    g.replace_in((P, 'get_content_format'), 'R18:closure-contract-1', r'\|option\| option\.ok\(\)',
                 '|option: Result<OptionValueU16, IncompatibleOptionValueFormat>| -> (o: Option<OptionValueU16>) ensures option is Ok ==> o == Some(option->Ok_0), option is Err ==> o is None { option.ok() }')
    g.replace_in((P, 'get_content_format'), 'R18:closure-contract-2', r'\|value\| usize::from\(value\.0\)',
                 '|value: OptionValueU16| -> (o: usize) ensures o == value.0 as usize { usize::from(value.0) }')
    g.replace_in((P, 'get_content_format'), 'R18:closure-contract-3', r'\|value\| ContentFormat::try_from\(value\)\.ok\(\)',
                 '|value: usize| -> (o: Option<ContentFormat>) ensures o == opt_of_result(cf_of_usize(value)) { ContentFormat::try_from(value).ok() }')
    g.contract((RQ, 'apply_from_error'), '''        requires old(self).response is Some ==> old(self).response->0.message.token@.len() <= 8
        ensures
            r == (old(self).response is Some && error.code is Some),
            final(self).message == old(self).message, final(self).source == old(self).source,
            (final(self).response is Some) == (old(self).response is Some),
            // whether it reports success or failure: only code, diagnostic payload and content format may change - never the correlation fields
            old(self).response is Some ==> ({
                let m0 = old(self).response->0.message; let m1 = final(self).response->0.message;
                &&& m1.header.ver_type_tkl == m0.header.ver_type_tkl &&& m1.header.message_id == m0.header.message_id &&& m1.token@ == m0.token@
                &&& opts_view(m1.options).remove(12) =~= opts_view(m0.options).remove(12)
                &&& (error.code is None ==> m1.header.code == m0.header.code)
            }),
            r ==> final(self).response is Some && ({
                let m0 = old(self).response->0.message; let m1 = final(self).response->0.message;
                &&& m1.header.code == MessageClass::Response(error.code->0)
                &&& m1.payload@ == utf8_of(error.message)
                // (which content format is set, if any, is the implementation's choice; every other option stays)
                &&& opts_view(m1.options).remove(12) =~= opts_view(m0.options).remove(12)
            })''', props=['C07'])
    g.contract((RQ, 'set_observe_flag'), '''        ensures opts_view(final(self).message.options) == opts_view(old(self).message.options).insert(6, seq![uint_be_min(usize_of_observe(flag) as nat)]),
            same_but_options(final(self).message, old(self).message), final(self).response == old(self).response, final(self).source == old(self).source''', props=['C19'])
    g.contract((RQ, 'get_observe_flag'), '''        ensures r is Some ==> (opts_view(self.message.options).contains_key(6) && opts_view(self.message.options)[6].len() > 0),
            // (one Observe value, as the setter leaves it; what a message with several reports is left open, except that it is never a named action the first value is not)
            opts_view(self.message.options).contains_key(6) && opts_view(self.message.options)[6].len() == 1 ==> r is Some,
            r is Some ==> ({ let b = opts_view(self.message.options)[6][0];
                // up to 4 bytes (what the setter stores): the registry entry of the value; never a named action it is not
                (b.len() <= 4 && opts_view(self.message.options)[6].len() == 1 ==> r->0 == observe_of_usize(be_val(b) as usize)) && (r->0 is Ok ==> usize_of_observe(r->0->Ok_0) == be_val(b)) })''', props=['C19'])
    # inner closures first (their positions are found by pattern, bodies stay verbatim)
    g.closure((RQ, 'get_observe_flag'), r'\|value\|', 'value: usize', 'y: Result<ObserveOption, InvalidObserve>', 'ensures y == observe_of_usize(value)', nth=1, count=2)
    g.closure((RQ, 'get_observe_flag'), r'\|value\|', 'value: u32', 'x: usize', 'ensures x == value as usize', nth=0, count=1)
    g.closure((RQ, 'get_observe_flag'), r'\|observe\|', 'observe: Result<u32, IncompatibleOptionValueFormat>', 'o: Result<ObserveOption, InvalidObserve>',
              'ensures observe is Err ==> o is Err, observe is Ok ==> o == observe_of_usize(observe->Ok_0 as usize)')
    u.finish(common.HEAD)
    return u
