"""Pieces shared by the Verus units: file header, common item sets, common rules."""
import os
import re
import sys

sys.path.insert(0, os.path.join(os.path.dirname(os.path.dirname(os.path.abspath(__file__))), 'spec'))
import registry  # noqa: E402

HEAD = open(os.path.join(os.path.dirname(os.path.dirname(os.path.abspath(__file__))), 'spec', 'head.rs')).read()

HEADER_FNS_ALL = ['new', 'from_raw', 'to_raw', 'set_version', 'get_version', 'set_type', 'get_type',
                  'set_token_length', 'get_token_length']

HEADERRAW_TRYFROM_SPEC = '''
impl<'a> TryFromSpecImpl<&'a [u8]> for HeaderRaw {
    open spec fn obeys_try_from_spec() -> bool { true }
    open spec fn try_from_spec(buf: &'a [u8]) -> Result<Self, MessageError> {
        if buf@.len() < 4 { Err(MessageError::InvalidPacketLength) } else {
            Ok(HeaderRaw { ver_type_tkl: buf@[0], code: buf@[1], message_id: ((buf@[2] as int) * 256 + buf@[3] as int) as u16 })
        }
    }
}
'''


def header_items(u, fns=HEADER_FNS_ALL, serialize=False):
    """error + header types and conversions, verbatim."""
    u.item('error.rs', 'pub enum MessageError')
    u.item('header.rs', 'pub struct HeaderRaw')
    if serialize:
        u.impl_fns('header.rs', 'impl HeaderRaw', ['serialize_into'])
    u.items('header.rs',
            'impl Default for HeaderRaw',
            'impl TryFrom<&[u8]> for HeaderRaw',
            'pub enum MessageClass',
            'impl From<u8> for MessageClass',
            'impl From<MessageClass> for u8',
            'pub enum RequestType',
            'pub enum ResponseType',
            'pub enum MessageType',
            'pub struct Header',
            'impl Default for Header')
    u.impl_fns('header.rs', 'impl Header', fns)


def packet_struct(u):
    u.item('packet.rs', 'pub struct Packet')


def common_rules(u, linked_list=(1, 99)):
    # R1: LinkedList -> VecDeque (the only sequence container with a library model)
    u.rule('R1:LinkedList->VecDeque', r'\bLinkedList\b', 'VecDeque', linked_list)
    # R8: visibility only
    for st in ['HeaderRaw', 'Header', 'Packet']:
        if re.search(r'struct ' + st + r'\b[^{;]*\{', u.text):
            u.pub_fields(st)


def header_contracts(u, props_dec):
    """Contracts of the header helpers the decoder depends on."""
    u.rule('R5:from_be_bytes', r'u16::from_be_bytes\(id_bytes\)', 'u16_from_be_bytes(id_bytes)', 1)
    u.rule('R2:assert_eq', r'assert_eq!\(0xF0 & tkl, 0\);', 'assert(0xF0 & tkl == 0);', (0, 1))
    u.contract(('impl Header', 'from_raw'),
               '        ensures r.ver_type_tkl == raw.ver_type_tkl, r.code == class_of_u8(raw.code), r.message_id == raw.message_id',
               props=props_dec)
    u.contract(('impl Header', 'get_token_length'),
               '        ensures r as int == (self.ver_type_tkl as int) % 16', props=props_dec)
    u.body_start(('impl Header', 'get_token_length'), '        proof { lemma_nibbles(self.ver_type_tkl); }')
