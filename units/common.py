"""Pieces shared by the Verus units: file header, common item sets, common rules."""
import os
import re
import sys

sys.path.insert(0, os.path.join(os.path.dirname(os.path.dirname(os.path.abspath(__file__))), 'spec'))
import registry  # noqa: E402

HEAD = open(os.path.join(os.path.dirname(os.path.dirname(os.path.abspath(__file__))), 'spec', 'head.rs')).read()

HEADER_FNS_ALL = ['new', 'from_raw', 'to_raw', 'set_version', 'get_version', 'set_type', 'get_type',
                  'set_token_length', 'get_token_length']

HEADERRAW_TRYFROM_SPEC = '''
impl<'a> TryFromSpecImpl<&'a [u8]> for HeaderRaw {
    open spec fn obeys_try_from_spec() -> bool { true }
    open spec fn try_from_spec(buf: &'a [u8]) -> Result<Self, MessageError> {
        if buf@.len() < 4 { Err(MessageError::InvalidPacketLength) } else {
            Ok(HeaderRaw { ver_type_tkl: buf@[0], code: buf@[1], message_id: ((buf@[2] as int) * 256 + buf@[3] as int) as u16 })
        }
    }
}
'''


def header_items(u, fns=HEADER_FNS_ALL, serialize=False):
    """error + header types and conversions, verbatim."""
    u.item('error.rs', 'pub enum MessageError')
    u.item('header.rs', 'pub struct HeaderRaw')
    if serialize:
        u.impl_fns('header.rs', 'impl HeaderRaw', ['serialize_into'])
    u.items('header.rs',
            'impl Default for HeaderRaw',
            'impl TryFrom<&[u8]> for HeaderRaw',
            'pub enum MessageClass',
            'impl From<u8> for MessageClass',
            'impl From<MessageClass> for u8',
            'pub enum RequestType',
            'pub enum ResponseType',
            'pub enum MessageType',
            'pub struct Header',
            'impl Default for Header')
    u.impl_fns('header.rs', 'impl Header', fns)


def packet_struct(u):
    u.item('packet.rs', 'pub struct Packet')


def common_rules(u, linked_list=(1, 99)):
    # R1: LinkedList -> VecDeque (the only sequence container with a library model)
    u.rule('R1:LinkedList->VecDeque', r'\bLinkedList\b', 'VecDeque', linked_list)
    # R8: visibility only
    for st in ['HeaderRaw', 'Header', 'Packet']:
        if re.search(r'struct ' + st + r'\b[^{;]*\{', u.text):
            u.pub_fields(st)


def header_contracts(u, props_dec):
    """Contracts of the header helpers the decoder depends on."""
    u.rule('R5:from_be_bytes', r'u16::from_be_bytes\(id_bytes\)', 'u16_from_be_bytes(id_bytes)', 1)
    u.rule('R2:assert_eq', r'assert_eq!\(((?:0xF0 & tkl|tkl & 0xF0)), 0\);', r'assert(\1 == 0);', (0, 1))
    u.contract(('impl Header', 'from_raw'),
               '        ensures r.ver_type_tkl == raw.ver_type_tkl, r.code == class_of_u8(raw.code), r.message_id == raw.message_id',
               props=props_dec)
    u.contract(('impl Header', 'get_token_length'),
               '        ensures r as int == (self.ver_type_tkl as int) % 16', props=props_dec)
    header_bit_hints(u, 'impl Header', fns=('get_token_length',))


# ---- bit-field hints generated from the code's own expressions ---------------------------------------------------------
# The header setters/getters are one or two lines of mask-and-shift arithmetic.  Their contracts speak about x / 64,
# (x / 16) % 4 and x % 16; the bridge to the code's bit operations is a `by (bit_vector)` fact.  To keep a harmless edit
# (commuted operands, another but equivalent mask-and-shift form, a renamed or inlined local) from failing a fact about
# the OLD expression, the facts are stated about the expression found in the code: locals defined by plain expressions are
# substituted, `self.ver_type_tkl` becomes x.  A wrong expression then fails its own fact (a named obligation).
def _fn_text(u, fnref):
    s, p, bo, bc = u._fn_span(fnref)
    return u.text[bo + 1:bc]


def _subst_locals(expr, body):
    lets = re.findall(r'let\s+(\w+)(?:\s*:\s*\w+)?\s*=\s*([^;{}]+);', body)
    for _ in range(4):
        for name, val in lets:
            expr = re.sub(r'(?<![\w.])' + re.escape(name) + r'(?![\w(])', '(' + val.strip() + ')', expr)
    return re.sub(r'self\s*\.\s*ver_type_tkl', 'x', expr)


def header_bit_hints(u, H='impl Header', fns=('set_version', 'get_version', 'set_type', 'get_type', 'set_token_length', 'get_token_length')):
    from vf.rustsrc import ExtractError
    have = lambda fn: re.search(r'fn\s+' + fn + r'\b', u.text) is not None
    def assigned(fn):
        body = _fn_text(u, (H, fn))
        m = re.search(r'self\s*\.\s*ver_type_tkl\s*([|&^]?)=(?!=)\s*([^;]+);', body)
        if not m:
            raise ExtractError('unit %s: %s does not assign self.ver_type_tkl' % (u.name, fn))
        # `x op= e` is `x = x op (e)`
        class M:
            def __init__(self, mm):
                self._m = mm
            def start(self):
                return self._m.start()
            def group(self, i):
                return ('self.ver_type_tkl %s (%s)' % (self._m.group(1), self._m.group(2))) if self._m.group(1) else self._m.group(2)
        return body, M(m)
    if 'set_version' in fns and have('set_version'):
        body, m = assigned('set_version')
        e = _subst_locals(m.group(1), body[:m.start()])
        u.before((H, 'set_version'), r'self\s*\.\s*ver_type_tkl\s*[|&^]?=(?!=)', '''        proof {
            let x = self.ver_type_tkl;
            assert(v < 4 ==> (%s) / 64 == v) by (bit_vector);
            assert(v < 4 ==> ((%s) / 16) %% 4 == (x / 16) %% 4) by (bit_vector);
            assert(v < 4 ==> (%s) %% 16 == x %% 16) by (bit_vector);
        }''' % (e, e, e))
    if 'set_type' in fns and have('set_type'):
        body, m = assigned('set_type')
        mt = re.search(r'let\s+(\w+)(?:\s*:\s*u8)?\s*=\s*match\s+t\b', body)
        tl = mt.group(1) if mt else 'tn'
        e = _subst_locals(m.group(1), re.sub(r'let\s+' + tl + r'\b[^;]*?=\s*match[^}]*\};', '', body[:m.start()], flags=re.S))
        e = re.sub(r'(?<![\w.])' + re.escape(tl) + r'(?![\w(])', 'tn8', e)
        u.before((H, 'set_type'), r'self\s*\.\s*ver_type_tkl\s*[|&^]?=(?!=)', '''        proof {
            let x = self.ver_type_tkl; let tn8: u8 = %s;
            assert(tn8 <= 3 ==> ((%s) / 16) %% 4 == tn8) by (bit_vector);
            assert(tn8 <= 3 ==> (%s) / 64 == x / 64) by (bit_vector);
            assert(tn8 <= 3 ==> (%s) %% 16 == x %% 16) by (bit_vector);
        }''' % (tl, e, e, e))
    if 'set_token_length' in fns and have('set_token_length'):
        body, m = assigned('set_token_length')
        e = _subst_locals(m.group(1), body[:m.start()])
        am = re.search(r'assert(?:_eq!)?\(\(?([^;]*?)\)?(?:, | == )0\);', body)
        guard = _subst_locals(am.group(1), '') if am else '0xF0 & tkl'
        u.body_start((H, 'set_token_length'), '        proof { assert(tkl < 16 ==> (%s) == 0) by (bit_vector); }' % guard)
        u.before((H, 'set_token_length'), r'self\s*\.\s*ver_type_tkl\s*[|&^]?=(?!=)', '''        proof {
            let x = self.ver_type_tkl;
            assert(tkl < 16 ==> (%s) %% 16 == tkl) by (bit_vector);
            assert(tkl < 16 ==> (%s) / 64 == x / 64) by (bit_vector);
            assert(tkl < 16 ==> ((%s) / 16) %% 4 == (x / 16) %% 4) by (bit_vector);
        }''' % (e, e, e))
    def returned(fn):
        body = _fn_text(u, (H, fn))
        body = re.sub(r'proof\s*\{[^{}]*(?:\{[^{}]*\}[^{}]*)*\}', '', body)     # hints already spliced
        stmts = [x.strip() for x in body.strip().split(';')]
        return body, stmts
    if 'get_version' in fns and have('get_version'):
        body, stmts = returned('get_version')
        e = _subst_locals(stmts[-1], body)
        u.body_start((H, 'get_version'), '        proof { let x = self.ver_type_tkl; assert((%s) == x / 64) by (bit_vector); }' % e)
    if 'get_token_length' in fns and have('get_token_length'):
        body, stmts = returned('get_token_length')
        e = _subst_locals(stmts[-1], body)
        u.body_start((H, 'get_token_length'), '        proof { let x = self.ver_type_tkl; assert((%s) == x %% 16) by (bit_vector); }' % e)
    if 'get_type' in fns and have('get_type'):
        body = _fn_text(u, (H, 'get_type'))
        mm = re.search(r'match\s+(.+?)\s*\{', body, re.S)
        if not mm:
            raise ExtractError('unit %s: get_type has no match' % u.name)
        e = _subst_locals(mm.group(1), body[:mm.start()])
        u.body_start((H, 'get_type'), '        proof { let x = self.ver_type_tkl; assert((%s) == (x / 16) %% 4) by (bit_vector); assert((%s) <= 3) by (bit_vector); }' % (e, e))
