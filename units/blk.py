"""Unit `blk`: the block-wise transfer handler (RFC 7959) glue of block_handler/mod.rs, read
verbatim on top of the accessor layer of unit `acc`, against contracts of what it calls:
  * BlockValue codec / size() / new() and negotiate_block_size_if_necessary: contracts proved by
    the Kani harnesses (complete) and assumed here (modular composition);
  * compute_message_size_hack: the encoder contract of unit `enc`;
  * extending_splice, chunks().skip(), lru_time_cache: assumed contracts (R19, R21, R24).
Step contracts for C08/C09, budget facts for C10, panic freedom for C11, frame for C12."""
import re

from vf.unit import Unit
from vf.rustsrc import ExtractError
from . import common, acc

NAME = 'blk'
PROPS = ['C08', 'C09', 'C10', 'C11', 'C12']
RLIMIT = 60

SPEC = r'''
// ---------------------------------------------------------------- error values (error.rs)
// R9: the message text (format!/to_string) is not part of any property; constructors are stubs
// that fix the response code, which is what C11 ("can be rendered as a 4.xx/5.xx reply") needs
pub struct HandlingError { pub code: Option<ResponseType>, pub message: String }
impl HandlingError {
    #[verifier::external_body] pub fn not_handled() -> (r: Self) ensures r.code is None { unimplemented!() }
    #[verifier::external_body] pub fn internal_str(e: String) -> (r: Self) ensures r.code == Some(ResponseType::InternalServerError) { unimplemented!() }
    #[verifier::external_body] pub fn internal_block(e: InvalidBlockValue) -> (r: Self) ensures r.code == Some(ResponseType::InternalServerError) { unimplemented!() }
    #[verifier::external_body] pub fn internal_msg(e: MessageError) -> (r: Self) ensures r.code == Some(ResponseType::InternalServerError) { unimplemented!() }
    #[verifier::external_body] pub fn internal_lit(e: &str) -> (r: Self) ensures r.code == Some(ResponseType::InternalServerError) { unimplemented!() }
    #[verifier::external_body] pub fn bad_request_str(e: String) -> (r: Self) ensures r.code == Some(ResponseType::BadRequest) { unimplemented!() }
}
pub struct InvalidBlockValue { pub dummy: u8 }
#[verifier::external_body] fn fmt_stub() -> String { unimplemented!() }
pub assume_specification<T: Default> [core::mem::take] (x: &mut T) -> (r: T)
    ensures r == *old(x), call_ensures(T::default, (), *final(x));

// ---------------------------------------------------------------- BlockValue (block_value.rs)
// The codec, size() and new() are verified on the real code by the complete Kani harnesses
// block_codec_roundtrip / block_decode_all_short_strings / block_size_is_power / block_new_contract;
// here they are stubs carrying exactly those contracts.
pub struct BlockValue { pub num: u16, pub more: bool, pub size_exponent: u8 }
pub open spec fn sz(e: u8) -> int { if e == 0 { 16 } else if e == 1 { 32 } else if e == 2 { 64 } else if e == 3 { 128 } else if e == 4 { 256 } else if e == 5 { 512 } else if e == 6 { 1024 } else { 2048 } }
pub open spec fn block_scalar(b: BlockValue) -> nat { (b.num as nat) * 16 + (if b.more { 8nat } else { 0nat }) + b.size_exponent as nat }
pub open spec fn block_bytes(b: BlockValue) -> Seq<u8> { uint_be_min(block_scalar(b)) }
pub open spec fn block_of_bytes(s: Seq<u8>) -> Option<BlockValue> {
    if s.len() > 4 || be_val(s) / 16 > 65535 { None }
    else { Some(BlockValue { num: (be_val(s) / 16) as u16, more: (be_val(s) / 8) % 2 == 1, size_exponent: (be_val(s) % 8) as u8 }) }
}
impl BlockValue {
    #[verifier::external_body]
    pub fn size(&self) -> (r: usize) requires self.size_exponent <= 7 ensures r == sz(self.size_exponent) { unimplemented!() }
}
impl Clone for BlockValue {
    #[verifier::external_body]
    fn clone(&self) -> (r: Self) ensures r == *self { unimplemented!() }
}
impl From<BlockValue> for Vec<u8> {
    #[verifier::external_body]
    fn from(block_value: BlockValue) -> (r: Vec<u8>) ensures block_value.size_exponent <= 7 ==> r@ == block_bytes(block_value) { unimplemented!() }
}
impl TryFrom<Vec<u8>> for BlockValue {
    type Error = IncompatibleOptionValueFormat;
    #[verifier::external_body]
    fn try_from(value: Vec<u8>) -> (r: Result<Self, Self::Error>)
        ensures (r is Ok) == (block_of_bytes(value@) is Some), r is Ok ==> r->Ok_0 == block_of_bytes(value@)->0
    { unimplemented!() }
}
impl OptionValueType for BlockValue {}
impl FromSpecImpl<BlockValue> for Vec<u8> { open spec fn obeys_from_spec() -> bool { false } open spec fn from_spec(v: BlockValue) -> Self { arbitrary() } }
impl TryFromSpecImpl<Vec<u8>> for BlockValue { open spec fn obeys_try_from_spec() -> bool { false } open spec fn try_from_spec(v: Vec<u8>) -> Result<Self, IncompatibleOptionValueFormat> { arbitrary() } }

// R21: extending_splice(dst, a..b, payload.iter().copied(), max) at its one call site.  Contract
// (assumed here; cross-checked on the real generic function by a bounded Kani harness): refuses
// to grow dst by more than `max` beyond its length, else dst[a..b) (zero-extended) := with
pub open spec fn zero_ext(s: Seq<u8>, n: int) -> Seq<u8> { if n <= s.len() { s } else { s + Seq::new((n - s.len()) as nat, |i: int| 0u8) } }
pub open spec fn spliced(dst: Seq<u8>, a: int, b: int, with: Seq<u8>) -> Seq<u8> {
    let d = zero_ext(dst, b); d.subrange(0, a) + with + d.subrange(b, d.len() as int)
}
#[verifier::external_body]
pub fn extending_splice_u8(dst: &mut Vec<u8>, start: usize, end: usize, with: &Vec<u8>, max: usize) -> (r: Result<(), String>)
    requires start <= end
    ensures
        (r is Err) == (end > old(dst)@.len() + max),
        r is Err ==> final(dst)@ == old(dst)@,
        r is Ok ==> final(dst)@ == spliced(old(dst)@, start as int, end as int, with@),
{ unimplemented!() }

// R20: `p.set_options_as::<T>(tp, [v].into())` with a one-element list (the only use in the handler):
// stores exactly into(v) as the only value of option tp  (set_options_as itself - iterator
// map/collect over a LinkedList - is not read by Verus)
#[verifier::external_body]
pub fn set_single_option_as<T: OptionValueType>(p: &mut Packet, tp: CoapOption, value: T)
    ensures exists|raw: Vec<u8>| call_ensures(<T as Into<Vec<u8>>>::into, (value,), raw)
            && #[trigger] opts_view(final(p).options) == opts_view(old(p).options).insert(u16_of_option(tp), seq![raw@]),
        same_but_options(*final(p), *old(p))
{ unimplemented!() }
// R19: `payload.chunks(size).skip(n)` and the `.next()` calls on it (std: the k-th call yields
// bytes [(n+k)*size, min((n+k+1)*size, len)) while (n+k)*size < len, else None)
pub struct ChunkCursor<'a> { pub data: &'a Vec<u8>, pub size: usize, pub idx: Ghost<int> }
#[verifier::external_body]
pub fn chunks_skip<'a>(data: &'a Vec<u8>, size: usize, n: usize) -> (r: ChunkCursor<'a>)
    requires size > 0
    ensures r.data@ == data@, r.size == size, r.idx@ == n as int
{ unimplemented!() }
impl<'a> ChunkCursor<'a> {
    #[verifier::external_body]
    pub fn next(&mut self) -> (r: Option<&'a [u8]>)
        ensures
            final(self).data == old(self).data, final(self).size == old(self).size, final(self).idx@ == old(self).idx@ + 1,
            (r is Some) == (old(self).idx@ * old(self).size < old(self).data@.len()),
            r is Some ==> r->0@ == old(self).data@.subrange(old(self).idx@ * old(self).size,
                if (old(self).idx@ + 1) * old(self).size <= old(self).data@.len() { (old(self).idx@ + 1) * old(self).size } else { old(self).data@.len() as int }),
    { unimplemented!() }
}
// Vec::extend(&[u8]) / VecDeque<Vec<u8>>::clone (R1: LinkedList clone) / Packet::clone (derived)
#[verifier::external_body]
pub fn vec_extend_slice(v: &mut Vec<u8>, s: &[u8]) ensures final(v)@ == old(v)@ + s@ { unimplemented!() }
#[verifier::external_body]
pub fn deque_clone(l: &VecDeque<Vec<u8>>) -> (r: VecDeque<Vec<u8>>) ensures vals_view(r) == vals_view(*l) { unimplemented!() }
#[verifier::external_body]
pub fn packet_clone(p: &Packet) -> (r: Packet)
    ensures r.header == p.header, r.token@ == p.token@, opts_view(r.options) == opts_view(p.options), r.payload@ == p.payload@
{ unimplemented!() }

// R24: the per-key state cache (external crate lru_time_cache).  `states.entry(key).or_insert(default)`
// returns the state stored under the key OR a fresh default state (that disjunct models expiry),
// writes go to that key only; other entries are untouched or dropped (expired), never modified.
pub struct CacheKey { pub id: Ghost<int> }
pub struct StateCache { pub m: Ghost<Map<int, BlockState>> }
pub uninterp spec fn key_of<E>(req: CoapRequest<E>) -> int;
pub open spec fn is_default(s: BlockState) -> bool { s.last_request_block2 is None && s.cached_response is None && s.cached_request_payload is None }
#[verifier::external_body]
pub fn request_key<E: Ord + Clone>(request: &CoapRequest<E>) -> (r: CacheKey) ensures r.id@ == key_of(*request) { unimplemented!() }
#[verifier::external_body]
pub fn states_entry<'a>(c: &'a mut StateCache, key: CacheKey) -> (r: &'a mut BlockState)
    ensures
        (old(c).m@.contains_key(key.id@) && *r == old(c).m@[key.id@]) || is_default(*r),
        final(c).m@.contains_key(key.id@) && final(c).m@[key.id@] == *final(r),
        forall|k: int| k != key.id@ && #[trigger] final(c).m@.contains_key(k) ==> old(c).m@.contains_key(k) && final(c).m@[k] == old(c).m@[k],
{ unimplemented!() }
pub struct BlockHandlerConfig { pub max_total_message_size: usize }
// data-structure invariant of a stored state: a remembered Block2 preference was decoded from an
// option value, so its size exponent is at most 7
pub open spec fn st_wf(s: BlockState) -> bool { s.last_request_block2 is Some ==> s.last_request_block2->0.size_exponent <= 7 }
pub open spec fn cache_wf(c: StateCache) -> bool { forall|k: int| #[trigger] c.m@.contains_key(k) ==> st_wf(c.m@[k]) }

// ---------------------------------------------------------------- step contracts (C08/C09)
pub open spec fn first_block(v: Map<u16, Seq<Seq<u8>>>, n: u16) -> Option<BlockValue> {
    if v.contains_key(n) && v[n].len() > 0 { block_of_bytes(v[n][0]) } else { None }
}
pub open spec fn buf_of(s: BlockState) -> Seq<u8> { if s.cached_request_payload is Some { s.cached_request_payload->0@ } else { Seq::<u8>::empty() } }
pub open spec fn same_but_payload(a: Packet, b: Packet) -> bool { a.header == b.header && a.token@ == b.token@ && opts_view(a.options) == opts_view(b.options) }
pub open spec fn same_msg(a: Packet, b: Packet) -> bool { same_but_payload(a, b) && a.payload@ == b.payload@ }
// the reply keeps the correlation fields CoapResponse::new gave it (C12: replies belong to the current request)
pub open spec fn same_correlation(a: Packet, b: Packet) -> bool {
    a.header.ver_type_tkl == b.header.ver_type_tkl && a.header.message_id == b.header.message_id && a.token@ == b.token@
}
proof fn lemma_spliced_len(dst: Seq<u8>, a: int, b: int, with: Seq<u8>, max: int)
    requires 0 <= a <= b, b <= dst.len() + max, 0 <= max
    ensures spliced(dst, a, b, with).len() <= dst.len() + max + with.len()
{
    let d = zero_ext(dst, b);
    assert(d.len() <= dst.len() + max);
}

// ---------------------------------------------------------------- request / response / state
use core::mem;
pub uninterp spec fn overhead_of(p: Packet) -> nat;    // encoded size without the payload (unit enc)
pub struct CoapResponse { pub message: Packet }
pub struct CoapRequest<Endpoint> { pub message: Packet, pub response: Option<CoapResponse>, pub source: Option<Endpoint> }
'''

BH = 'impl<Endpoint: Ord + Clone> BlockHandler<Endpoint>'


def extra_items(u):
    u.item('packet.rs', "pub type Options<'a>")
    u.items('block_handler/mod.rs', 'const BLOCK_OPTIONS_MAX_LENGTH', 'const MAXIMUM_UNCOMMITTED_BUFFER_RESERVE_LENGTH',
            'pub struct BlockState')
    u.raw('pub struct BlockHandler<Endpoint: Ord + Clone> { pub config: BlockHandlerConfig, pub states: StateCache, pub e: Option<Endpoint> }', 'units/blk.py (R24: cache field abstracted)')
    u.impl_fns('block_handler/mod.rs', BH, ['intercept_request', 'intercept_response', 'maybe_handle_request_block1', 'maybe_handle_request_block2', 'maybe_serve_cached_response', 'packet_clone_limited', 'compute_message_size_hack', 'negotiate_block_size_if_necessary'])


def build(repo):
    u = Unit(NAME, repo)
    acc.populate(u, extra_items=extra_items, extra_spec=SPEC, extra_packet_fns=['options'])
    u.pub_fields('BlockState')
    u.rule('derive-drop:BlockState', r'#\[derive\(Debug, Clone, Default\)\]\s*pub struct BlockState', 'pub struct BlockState', 1)
    B1 = (BH, 'maybe_handle_request_block1')
    # ---- callee contracts (stubs with the real signatures) -----------------------------------
    u.stub_fn((BH, 'negotiate_block_size_if_necessary'))
    u.contract((BH, 'negotiate_block_size_if_necessary'), '''        requires request_block is Some ==> request_block->0.size_exponent <= 7, total_payload_size <= message_size, message_size <= usize::MAX / 4
        ensures
            r is Err ==> r->Err_0.code is Some,
            r is Ok && r->Ok_0 is Some ==> r->Ok_0->0.size_exponent <= 7,
            request_block is Some && r is Ok ==> r->Ok_0 is Some,
            r is Ok && r->Ok_0 is None ==> request_block is None && total_payload_size + (message_size - total_payload_size) + 12 < max_total_message_size''')
    u.stub_fn((BH, 'compute_message_size_hack'))
    u.contract((BH, 'compute_message_size_hack'), '''        ensures *final(packet) == *old(packet), r is Err ==> r->Err_0.code is Some,
            r is Ok ==> r->Ok_0 == overhead_of(*old(packet)) + old(packet).payload@.len() && r->Ok_0 <= usize::MAX / 4''')
    u.rule('R21:extending_splice', r'extending_splice\(\s*(\w+),\s*(\w+)\.\.([^,]+),\s*([\w\.]+)\.iter\(\)\.copied\(\),\s*(\w+),?\s*\)',
           r'extending_splice_u8(\1, \2, \3, &\4, \5)', 1)
    u.rule('R9:internal-fn-item', r'\.map_err\(HandlingError::internal\)\?', '.map_err(HandlingError::internal_str)?', 1)
    u.rule('R24:states-entry', r'self\s*\.states\s*\.entry\(request\.deref\(\)\.into\(\)\)\s*\.or_insert\(BlockState::default\(\)\)',
           'states_entry(&mut self.states, request_key(request))', 2)
    u.rule('R23:ref-mut-pattern', r'if let Some\(ref mut response\) = request\.response \{', 'if let Some(response) = &mut request.response {', 1)
    u.rule('R27:packet-clone', r'response\.message\.clone\(\)', 'packet_clone(&response.message)', 1)
    u.rule('R0:alloc-path', r'alloc::collections::btree_map::Iter', 'std::collections::btree_map::Iter', 1)
    u.rule('R9:bad_request(format!)', r'HandlingError::bad_request\(format!\((?:[^()]|\([^()]*\))*\)\)', 'HandlingError::bad_request_str(fmt_stub())', 1)
    u.rule('R20:set_options_as-single', r'(\w+(?:\.\w+)*)\.set_options_as::<BlockValue>\(\s*(CoapOption::\w+),\s*\[(\w+)\]\.into\(\),?\s*\)',
           r'set_single_option_as(&mut \1, \2, \3)', 1)
    u.rule('R23:ref-pattern-in-for', r'for \(&option, value\) in src\.options\(\) \{', 'for (option_ref, value) in src.options() { let option = *option_ref;', 1)
    u.rule('R22:clone_from', r'state\.last_request_block2\.clone_from\(&maybe_block2\);', 'state.last_request_block2 = maybe_block2.clone();', 1)
    u.rule('R23:ref-pattern', r'if let Some\(ref response\) = state\.cached_response \{', 'if let Some(response) = &state.cached_response {', 1)
    u.rule('R19:chunks-skip', r'cached_payload\s*\.chunks\(request_block_size\)\s*\.skip\(usize::from\(request_block2\.num\)\)', 'chunks_skip(cached_payload, request_block_size, usize::from(request_block2.num))', 1)
    u.rule('R6:extend-slice', r'response_payload\.extend\(cached_payload_chunk\);', 'vec_extend_slice(response_payload, cached_payload_chunk);', 1)
    u.rule('R1:deque-clone', r'dst\.set_option\(CoapOption::from\(option\), value\.clone\(\)\);', 'dst.set_option(CoapOption::from(option), deque_clone(value));', 1)
    for fn in ['maybe_handle_request_block2']:
        u.closure((BH, fn), r'\|x\|', 'x: Result<BlockValue, IncompatibleOptionValueFormat>', 'o: Option<BlockValue>', 'ensures x is Ok ==> o == Some(x->Ok_0), x is Err ==> o is None')
    u.contract(('impl Packet', 'options'), '        ensures call_ensures(BTreeMap::<u16, VecDeque<Vec<u8>>>::iter, (&self.options,), r)', props=['C08', 'C12'])
    u.contract((BH, 'maybe_serve_cached_response'), '''        requires request_block2.size_exponent <= 7''')
    for fn in ['intercept_request', 'intercept_response']:
        u.contract((BH, fn), '''        requires cache_wf(old(self).states), old(request).message.payload@.len() <= usize::MAX / 8,
            old(request).response is Some ==> old(request).response->0.message.payload@.len() <= usize::MAX / 8
        ensures cache_wf(final(self).states)''')
    u.contract((BH, 'maybe_handle_request_block2'), '        requires st_wf(*old(state)) ensures st_wf(*final(state))')
    u.contract(B1, '''        requires st_wf(*old(state)), old(request).message.payload@.len() <= usize::MAX / 8
        ensures
            st_wf(*final(state)),
            final(state).last_request_block2 == old(state).last_request_block2, final(state).cached_response == old(state).cached_response,
            final(request).source == old(request).source,
            final(request).response is Some == old(request).response is Some,
            // C11: every error can be rendered as a reply, unless there is no reply to render it into
            r is Err ==> (r->Err_0.code is Some || old(request).response is None),
            same_but_payload(final(request).message, old(request).message),
            // C12: whatever happens, the reply keeps the message id and token of the request being answered
            old(request).response is Some ==> same_correlation(final(request).response->0.message, old(request).response->0.message),
            ({
                let b = first_block(opts_view(old(request).message.options), 27);
                let p = old(request).message.payload@;
                // C11: a block whose offset would need a jump of more than 16 KiB is rejected and leaves the buffered data unchanged
                &&& (b is Some && (b->0.num as int) * sz(b->0.size_exponent) + sz(b->0.size_exponent) > buf_of(*old(state)).len() + 16384
                        ==> r is Err && buf_of(*final(state)) == buf_of(*old(state)) && same_msg(final(request).message, old(request).message))
                &&& (b is Some && r is Ok ==> ({
                        let off = (b->0.num as int) * sz(b->0.size_exponent);
                        let buf = spliced(buf_of(*old(state)), off, off + sz(b->0.size_exponent), p);
                        // C11: bounded growth
                        &&& buf.len() <= buf_of(*old(state)).len() + 16384 + p.len()
                        &&& old(request).response is Some
                        // non-final block: buffered, answered 2.31 Continue + Block1, application not reached
                        &&& (b->0.more ==> r->Ok_0 && buf_of(*final(state)) == buf && final(state).cached_request_payload is Some
                                && same_msg(final(request).message, old(request).message)
                                && final(request).response->0.message.header.code == MessageClass::Response(ResponseType::Continue)
                                && final(request).response->0.message.payload@ == old(request).response->0.message.payload@
                                && exists|nb: BlockValue| nb.size_exponent <= 7 && #[trigger] opts_view(final(request).response->0.message.options)
                                        == push_opt(opts_view(old(request).response->0.message.options), 27, block_bytes(nb)))
                        // final block: the whole buffer is handed to the application, the buffer is released
                        &&& (!b->0.more ==> !r->Ok_0 && final(state).cached_request_payload is None
                                && final(request).message.payload@ == buf && same_but_payload(final(request).message, old(request).message)
                                && final(request).response->0.message.header.code == old(request).response->0.message.header.code
                                && exists|nb: BlockValue| nb.size_exponent <= 7 && #[trigger] opts_view(final(request).response->0.message.options)
                                        == push_opt(opts_view(old(request).response->0.message.options), 27, block_bytes(nb)))
                    }))
                // no Block1 option: either untouched (fits), or answered 4.13 with a Block1 size hint
                &&& (b is None && r is Ok ==> final(state).cached_request_payload == old(state).cached_request_payload
                        && same_msg(final(request).message, old(request).message)
                        && (!r->Ok_0 ==> final(request).response == old(request).response)
                        && (r->Ok_0 ==> old(request).response is Some
                                && final(request).response->0.message.header.code == MessageClass::Response(ResponseType::RequestEntityTooLarge)
                                && exists|nb: BlockValue| nb.size_exponent <= 7 && #[trigger] opts_view(final(request).response->0.message.options)
                                        == push_opt(opts_view(old(request).response->0.message.options), 27, block_bytes(nb))))
            })''', props=['C09', 'C11', 'C12'])
    u.closure(B1, r'\|x\|', 'x: Result<BlockValue, IncompatibleOptionValueFormat>', 'o: Option<BlockValue>', 'ensures x is Ok ==> o == Some(x->Ok_0), x is Err ==> o is None')
    u.before(B1, r'let payload_offset\s*=', '''                proof {
                    let e = request_block1.size_exponent;
                    assert(e <= 7);
                    assert(16 <= sz(e) <= 2048);
                    assert((request_block1.num as int) * sz(e) <= 65535 * 2048) by (nonlinear_arith)
                        requires 0 <= request_block1.num as int <= 65535, 0 <= sz(e) <= 2048;
                }''')
    u.finish(common.HEAD)
    return u
