"""Unit `blk`: the block-wise transfer handler (RFC 7959) glue of block_handler/mod.rs, read
verbatim on top of the accessor layer of unit `acc`, against contracts of what it calls:
  * BlockValue codec / size() / new() and negotiate_block_size_if_necessary: contracts proved by
    the Kani harnesses (complete) and assumed here (modular composition);
  * compute_message_size_hack: the encoder contract of unit `enc`;
  * extending_splice, chunks().skip(), lru_time_cache: assumed contracts (R19, R21, R24).
Step contracts for C08/C09, budget facts for C10, panic freedom for C11, frame for C12."""
import re

from vf.unit import Unit
from vf.rustsrc import ExtractError
from . import common, acc

NAME = 'blk'
PROPS = ['C08', 'C09', 'C10', 'C11', 'C12']
RLIMIT = 60

SPEC = r'''
// ---------------------------------------------------------------- error values (error.rs)
// R9: the message text (format!/to_string) is not part of any property; constructors are stubs
// that fix the response code, which is what C11 ("can be rendered as a 4.xx/5.xx reply") needs
pub struct HandlingError { pub code: Option<ResponseType>, pub message: String }
impl HandlingError {
    #[verifier::external_body] pub fn not_handled() -> (r: Self) ensures r.code is None { unimplemented!() }
    #[verifier::external_body] pub fn not_found() -> (r: Self) ensures r.code == Some(ResponseType::NotFound) { unimplemented!() }
    #[verifier::external_body] pub fn bad_request<T>(e: T) -> (r: Self) ensures r.code == Some(ResponseType::BadRequest) { unimplemented!() }
    #[verifier::external_body] pub fn internal<T>(e: T) -> (r: Self) ensures r.code == Some(ResponseType::InternalServerError) { unimplemented!() }
    #[verifier::external_body] pub fn method_not_supported() -> (r: Self) ensures r.code == Some(ResponseType::MethodNotAllowed) { unimplemented!() }
    #[verifier::external_body] pub fn with_code<T>(code: ResponseType, e: T) -> (r: Self) ensures r.code == Some(code) { unimplemented!() }
}
pub struct InvalidBlockValue { pub dummy: u8 }
#[verifier::external_body] fn fmt_stub() -> String { unimplemented!() }
pub assume_specification<T: Default> [core::mem::take] (x: &mut T) -> (r: T)
    ensures r == *old(x), call_ensures(T::default, (), *final(x));

// ---------------------------------------------------------------- BlockValue (block_value.rs)
// The codec, size() and new() are verified on the real code by the complete Kani harnesses
// block_codec_roundtrip / block_decode_all_short_strings / block_size_is_power / block_new_contract;
// here they are stubs carrying exactly those contracts.
pub struct BlockValue { pub num: u16, pub more: bool, pub size_exponent: u8 }
pub open spec fn sz(e: u8) -> int { if e == 0 { 16 } else if e == 1 { 32 } else if e == 2 { 64 } else if e == 3 { 128 } else if e == 4 { 256 } else if e == 5 { 512 } else if e == 6 { 1024 } else { 2048 } }
pub open spec fn block_scalar(b: BlockValue) -> nat { (b.num as nat) * 16 + (if b.more { 8nat } else { 0nat }) + b.size_exponent as nat }
pub open spec fn block_bytes(b: BlockValue) -> Seq<u8> { uint_be_min(block_scalar(b)) }
pub open spec fn block_of_bytes(s: Seq<u8>) -> Option<BlockValue> {
    if s.len() > 4 || be_val(s) / 16 > 65535 { None }
    else { Some(BlockValue { num: (be_val(s) / 16) as u16, more: (be_val(s) / 8) % 2 == 1, size_exponent: (be_val(s) % 8) as u8 }) }
}
impl BlockValue {
    #[verifier::external_body]
    pub fn size(&self) -> (r: usize) requires self.size_exponent <= 7 ensures r == sz(self.size_exponent) { unimplemented!() }
}
impl Clone for BlockValue {
    #[verifier::external_body]
    fn clone(&self) -> (r: Self) ensures r == *self { unimplemented!() }
}
impl From<BlockValue> for Vec<u8> {
    #[verifier::external_body]
    fn from(block_value: BlockValue) -> (r: Vec<u8>) ensures block_value.size_exponent <= 7 ==> r@ == block_bytes(block_value) { unimplemented!() }
}
impl TryFrom<Vec<u8>> for BlockValue {
    type Error = IncompatibleOptionValueFormat;
    #[verifier::external_body]
    fn try_from(value: Vec<u8>) -> (r: Result<Self, Self::Error>)
        ensures (r is Ok) == (block_of_bytes(value@) is Some), r is Ok ==> r->Ok_0 == block_of_bytes(value@)->0
    { unimplemented!() }
}
impl OptionValueType for BlockValue {}
impl FromSpecImpl<BlockValue> for Vec<u8> { open spec fn obeys_from_spec() -> bool { false } open spec fn from_spec(v: BlockValue) -> Self { arbitrary() } }
impl TryFromSpecImpl<Vec<u8>> for BlockValue { open spec fn obeys_try_from_spec() -> bool { false } open spec fn try_from_spec(v: Vec<u8>) -> Result<Self, IncompatibleOptionValueFormat> { arbitrary() } }

// R21: extending_splice(dst, a..b, payload.iter().copied(), max) at its one call site.  Contract
// (assumed here; cross-checked on the real generic function by a bounded Kani harness): refuses
// to grow dst by more than `max` beyond its length, else dst[a..b) (zero-extended) := with
pub open spec fn zero_ext(s: Seq<u8>, n: int) -> Seq<u8> { if n <= s.len() { s } else { s + Seq::new((n - s.len()) as nat, |i: int| 0u8) } }
pub open spec fn spliced(dst: Seq<u8>, a: int, b: int, with: Seq<u8>) -> Seq<u8> {
    let d = zero_ext(dst, b); d.subrange(0, a) + with + d.subrange(b, d.len() as int)
}
#[verifier::external_body]
pub fn extending_splice_u8(dst: &mut Vec<u8>, start: usize, end: usize, with: &Vec<u8>, max: usize) -> (r: Result<(), String>)
    requires start <= end
    ensures
        (r is Err) == (end > old(dst)@.len() + max),
        r is Err ==> final(dst)@ == old(dst)@,
        r is Ok ==> final(dst)@ == spliced(old(dst)@, start as int, end as int, with@),
{ unimplemented!() }

// R20: `p.set_options_as::<T>(tp, [v].into())` with a one-element list (the only use in the handler):
// stores exactly into(v) as the only value of option tp  (set_options_as itself - iterator
// map/collect over a LinkedList - is not read by Verus)
#[verifier::external_body]
pub fn set_single_option_as<T: OptionValueType>(p: &mut Packet, tp: CoapOption, value: T)
    ensures exists|raw: Vec<u8>| call_ensures(<T as Into<Vec<u8>>>::into, (value,), raw)
            && #[trigger] opts_view(final(p).options) == opts_view(old(p).options).insert(u16_of_option(tp), seq![raw@]),
        same_but_options(*final(p), *old(p))
{ unimplemented!() }
// R19: `payload.chunks(size).skip(n)` and the `.next()` calls on it (std: the k-th call yields
// bytes [(n+k)*size, min((n+k+1)*size, len)) while (n+k)*size < len, else None)
pub struct ChunkCursor<'a> { pub data: &'a Vec<u8>, pub size: usize, pub idx: Ghost<int> }
#[verifier::external_body]
pub fn chunks_skip<'a>(data: &'a Vec<u8>, size: usize, n: usize) -> (r: ChunkCursor<'a>)
    requires size > 0
    ensures r.data@ == data@, r.size == size, r.idx@ == n as int
{ unimplemented!() }
impl<'a> ChunkCursor<'a> {
    #[verifier::external_body]
    pub fn next(&mut self) -> (r: Option<&'a [u8]>)
        ensures
            final(self).data == old(self).data, final(self).size == old(self).size, final(self).idx@ == old(self).idx@ + 1,
            (r is Some) == (old(self).idx@ * old(self).size < old(self).data@.len()),
            r is Some ==> r->0@ == old(self).data@.subrange(old(self).idx@ * old(self).size,
                if (old(self).idx@ + 1) * old(self).size <= old(self).data@.len() { (old(self).idx@ + 1) * old(self).size } else { old(self).data@.len() as int }),
    { unimplemented!() }
}
// Vec::extend(&[u8]) / VecDeque<Vec<u8>>::clone (R1: LinkedList clone) / Packet::clone (derived)
#[verifier::external_body]
pub fn vec_extend_slice(v: &mut Vec<u8>, s: &[u8]) ensures final(v)@ == old(v)@ + s@ { unimplemented!() }
#[verifier::external_body]
pub fn deque_clone(l: &VecDeque<Vec<u8>>) -> (r: VecDeque<Vec<u8>>) ensures vals_view(r) == vals_view(*l) { unimplemented!() }
#[verifier::external_body]
pub fn packet_clone(p: &Packet) -> (r: Packet)
    ensures r.header == p.header, r.token@ == p.token@, opts_view(r.options) == opts_view(p.options), r.payload@ == p.payload@
{ unimplemented!() }

// R24: the per-key state cache (external crate lru_time_cache).  `states.entry(key).or_insert(default)`
// returns the state stored under the key OR a fresh default state (that disjunct models expiry),
// writes go to that key only; other entries are untouched or dropped (expired), never modified.
pub struct CacheKey { pub id: Ghost<int> }
pub struct StateCache { pub m: Ghost<Map<int, BlockState>> }
pub uninterp spec fn key_of<E>(req: CoapRequest<E>) -> int;
pub open spec fn is_default(s: BlockState) -> bool { s.last_request_block2 is None && s.cached_response is None && s.cached_request_payload is None }
#[verifier::external_body]
pub fn request_key<E: Ord + Clone>(request: &CoapRequest<E>) -> (r: CacheKey) ensures r.id@ == key_of(*request) { unimplemented!() }
#[verifier::external_body]
pub fn states_entry<'a>(c: &'a mut StateCache, key: CacheKey) -> (r: &'a mut BlockState)
    ensures
        (old(c).m@.contains_key(key.id@) && *r == old(c).m@[key.id@]) || is_default(*r),
        final(c).m@.contains_key(key.id@) && final(c).m@[key.id@] == *final(r),
        forall|k: int| k != key.id@ && #[trigger] final(c).m@.contains_key(k) ==> old(c).m@.contains_key(k) && final(c).m@[k] == old(c).m@[k],
{ unimplemented!() }
pub struct BlockHandlerConfig { pub max_total_message_size: usize }
// the key depends on method, path options and source only - none of which the handler changes
pub open spec fn key_stable<E>(q: CoapRequest<E>) -> bool {
    forall|q2: CoapRequest<E>| q2.source == q.source && same_but_payload(q2.message, q.message) ==> #[trigger] key_of(q2) == key_of(q)
}
// data-structure invariant of a stored state: a remembered Block2 preference was decoded from an
// option value, so its size exponent is at most 7
pub open spec fn st_wf(s: BlockState) -> bool { s.last_request_block2 is Some ==> s.last_request_block2->0.size_exponent <= 7 }
pub open spec fn cache_wf(c: StateCache) -> bool { forall|k: int| #[trigger] c.m@.contains_key(k) ==> st_wf(c.m@[k]) }

// ---------------------------------------------------------------- block-size negotiation (C10)
// Contract of negotiate_block_size_if_necessary.  Every conjunct is an assertion of the Kani harnesses
// negotiate_never_panics (all budgets) / negotiate_within_budget (budgets overhead+28 ..= 1280), which
// prove it on the real function over all inputs (kani/src/negotiate.rs - keep in sync).
pub open spec fn neg_post(rb: Option<BlockValue>, ms: int, pl: int, m: int, r: Result<Option<BlockValue>, HandlingError>) -> bool {
    let ov = ms - pl;
    &&& (r is Err ==> r->Err_0.code is Some)
    &&& (r is Ok && r->Ok_0 is Some ==> r->Ok_0->0.size_exponent <= 7)
    &&& (rb is Some && r is Ok ==> r->Ok_0 is Some)
    // C10: a message left unfragmented fits the budget (ov is measured without the payload marker)
    &&& (r is Ok && r->Ok_0 is None ==> rb is None && pl + ov + (if pl > 0 { 1int } else { 0int }) <= m)
    &&& (ov + 28 <= m <= 1280 && r is Err ==> rb is Some && !(sz(rb->0.size_exponent) + ov + 32 <= m))
    &&& (ov + 28 <= m <= 1280 && r is Ok && r->Ok_0 is Some ==> {
            let b = r->Ok_0->0;
            // a power of two between 16 and 1024 that fits the budget with the 12-byte option reserve
            &&& b.size_exponent <= 6
            &&& sz(b.size_exponent) + ov + 12 <= m
            // never larger than the client's; exactly the client's (and its block number) when that fits with 32 bytes to spare
            &&& (rb is Some ==> sz(b.size_exponent) <= sz(rb->0.size_exponent)
                    && (sz(rb->0.size_exponent) + ov + 32 <= m ==> b.size_exponent == rb->0.size_exponent && b.num == rb->0.num)
                    && (b.size_exponent == rb->0.size_exponent ==> b.num == rb->0.num))
            &&& (rb is None ==> b.num == 0 && b.more)
        })
}
pub open spec fn deref_opt(rb: Option<&BlockValue>) -> Option<BlockValue> { if rb is Some { Some(*rb->0) } else { None } }

// ---------------------------------------------------------------- step contracts (C08/C09)
pub open spec fn first_block(v: Map<u16, Seq<Seq<u8>>>, n: u16) -> Option<BlockValue> {
    if v.contains_key(n) && v[n].len() > 0 { block_of_bytes(v[n][0]) } else { None }
}
pub open spec fn buf_of(s: BlockState) -> Seq<u8> { if s.cached_request_payload is Some { s.cached_request_payload->0@ } else { Seq::<u8>::empty() } }
pub open spec fn same_but_payload(a: Packet, b: Packet) -> bool { a.header == b.header && a.token@ == b.token@ && opts_view(a.options) == opts_view(b.options) }
pub open spec fn same_msg(a: Packet, b: Packet) -> bool { same_but_payload(a, b) && a.payload@ == b.payload@ }
// the reply keeps the correlation fields CoapResponse::new gave it (C12: replies belong to the current request)
pub open spec fn same_correlation(a: Packet, b: Packet) -> bool {
    a.header.ver_type_tkl == b.header.ver_type_tkl && a.header.message_id == b.header.message_id && a.token@ == b.token@
}
// options of the cached reply laid over the prepared response (packet_clone_limited)
pub open spec fn overlay(base: Map<u16, Seq<Seq<u8>>>, top: Map<u16, Seq<Seq<u8>>>) -> Map<u16, Seq<Seq<u8>>> {
    Map::new(base.dom().union(top.dom()), |k: u16| if top.contains_key(k) { top[k] } else { base[k] })
}
pub open spec fn min_int(a: int, b: int) -> int { if a <= b { a } else { b } }
// what serving block `blk` of the cached reply `cached` into the prepared response does, split by the property each part
// belongs to (so that a failure is reported for that property only)
pub open spec fn served_frame<E>(q0: CoapRequest<E>, q1: CoapRequest<E>, r: Result<bool, HandlingError>) -> bool {
            &&& q1.message == q0.message && q1.source == q0.source
            &&& (q1.response is Some) == (q0.response is Some)
            &&& (q0.response is None ==> r is Err)
}
// C11: an error can be rendered as a reply (or there is no reply to render it into)
pub open spec fn served_err<E>(q0: CoapRequest<E>, r: Result<bool, HandlingError>) -> bool {
            r is Err ==> (r->Err_0.code is Some || q0.response is None)
}
// C12: the reply keeps message id, token and token length of the request being answered
pub open spec fn served_corr<E>(q0: CoapRequest<E>, q1: CoapRequest<E>) -> bool {
            q0.response is Some ==> {
                let m0 = q0.response->0.message; let m1 = q1.response->0.message;
                m1.header.message_id == m0.header.message_id && m1.token@ == m0.token@ && tkl_of(m1.header.ver_type_tkl) == tkl_of(m0.header.ver_type_tkl)
            }
}
// C08: which bytes, which Block2 option, which other options
pub open spec fn served_block<E>(q0: CoapRequest<E>, q1: CoapRequest<E>, blk: BlockValue, cached: Packet, r: Result<bool, HandlingError>) -> bool {
            q0.response is Some ==> {
                let s = sz(blk.size_exponent); let n = blk.num as int;
                let body = cached.payload@; let len = body.len() as int;
                let m0 = q0.response->0.message; let m1 = q1.response->0.message;
                // C08: block n exists iff its offset lies inside the body - and block 0 always does ("every response body
                // including the empty one": an empty body is one empty block)
                &&& (r is Ok) == (n * s < len || n == 0)
                &&& (r is Ok ==> ({
                        // exactly the bytes [n*s, min((n+1)*s, len)), `more` exactly when bytes remain
                        &&& m1.payload@ == body.subrange(n * s, min_int((n + 1) * s, len))
                        &&& r->Ok_0 == ((n + 1) * s < len)
                        // block number and size echo the request, every other option comes from the cached reply
                        &&& opts_view(m1.options) == overlay(opts_view(m0.options), opts_view(cached.options)).insert(23,
                                seq![block_bytes(BlockValue { num: blk.num, more: r->Ok_0, size_exponent: blk.size_exponent })])
                        &&& m1.header.code == cached.header.code
                    }))
            }
}
pub open spec fn served<E>(q0: CoapRequest<E>, q1: CoapRequest<E>, blk: BlockValue, cached: Packet, r: Result<bool, HandlingError>) -> bool {
    served_frame(q0, q1, r) && served_err(q0, r) && served_corr(q0, q1) && served_block(q0, q1, blk, cached, r)
}
pub open spec fn same_packet_view(a: Packet, b: Packet) -> bool { a.header == b.header && a.token@ == b.token@ && opts_view(a.options) == opts_view(b.options) && a.payload@ == b.payload@ }
// what intercept_response does with the application's reply (C08: decide to fragment, cache, serve block 0;
// C10: the size comes from the negotiation, an unfragmented reply fits the budget)
pub open spec fn intercept_resp_post<E>(q0: CoapRequest<E>, q1: CoapRequest<E>, st0: BlockState, st1: BlockState, m: int, r: Result<bool, HandlingError>) -> bool {
    if q0.response is None || opts_view(q0.response->0.message.options).contains_key(23) {
        // no reply, or the application fragments by itself: hands off
        r is Ok && !r->Ok_0 && q1 == q0 && st1 == st0
    } else {
        let msg = q0.response->0.message; let pl = msg.payload@.len() as int; let ov = overhead_of(msg) as int;
        exists|rn: Result<Option<BlockValue>, HandlingError>| #[trigger] neg_post(st0.last_request_block2, ov + pl, pl, m, rn) && (
            if rn is Err { r is Err }
            else if rn->Ok_0 is None { r is Ok && !r->Ok_0 && q1 == q0 && st1 == st0 }       // left unfragmented
            else {
                let nb = rn->Ok_0->0;
                // block `nb` of the reply is served at once ...
                &&& exists|rs: Result<bool, HandlingError>| #[trigger] served(q0, q1, nb, msg, rs) && (rs is Err ==> r is Err)
                        && (rs is Ok ==> r is Ok && r->Ok_0 == rs->Ok_0
                            // ... and the whole reply is cached exactly when more blocks remain
                            && (rs->Ok_0 ==> st1.cached_response is Some && same_packet_view(st1.cached_response->0, msg)
                                    && st1.last_request_block2 == st0.last_request_block2 && st1.cached_request_payload == st0.cached_request_payload)
                            && (!rs->Ok_0 ==> st1 == st0))
            })
    }
}
proof fn lemma_spliced_len(dst: Seq<u8>, a: int, b: int, with: Seq<u8>, max: int)
    requires 0 <= a <= b, b <= dst.len() + max, 0 <= max
    ensures spliced(dst, a, b, with).len() <= dst.len() + max + with.len()
{
    let d = zero_ext(dst, b);
    assert(d.len() <= dst.len() + max);
}

// ---------------------------------------------------------------- C09 history lemma
// One Block1 step on the buffer, as the step contract of maybe_handle_request_block1 states it
pub open spec fn b1_buf(buf: Seq<u8>, num: int, s: int, p: Seq<u8>) -> Seq<u8> { spliced(buf, num * s, num * s + s, p) }
// what the final block hands to the application: everything before the block's offset (zero-filled if the buffer is
// shorter) followed by the block's payload - the body ends with the final block
pub open spec fn b1_delivered(buf: Seq<u8>, num: int, s: int, p: Seq<u8>) -> Seq<u8> { zero_ext(buf, num * s).subrange(0, num * s) + p }
// ... which is what remains of ANY splice [a, b) := p (b >= a) after truncating at a + |p|
proof fn lemma_splice_take(buf: Seq<u8>, a: int, b: int, p: Seq<u8>)
    requires 0 <= a <= b
    ensures spliced(buf, a, b, p).take(a + p.len()) == zero_ext(buf, a).subrange(0, a) + p
{
    let d = zero_ext(buf, b);
    assert(d.subrange(0, a) =~= zero_ext(buf, a).subrange(0, a));
    assert(spliced(buf, a, b, p).take(a + p.len()) =~= d.subrange(0, a) + p);
}
// What C09 needs from one accepted non-final block delivered in order (offset inside or right at the end of the buffered data):
// the buffer then holds, up to the end of this block, what it held before the block's offset followed by the block.  What
// lies beyond is left open (a handler may keep it, as splicing does, or drop it, e.g. restart the buffer at block 0).
pub open spec fn b1_step(buf0: Seq<u8>, buf1: Seq<u8>, num: int, s: int, p: Seq<u8>) -> bool {
    num * s <= buf0.len() ==> buf1.len() >= num * s + s && buf1.take(num * s + s) == buf0.take(num * s) + p
}
// the splice the code performs is such a step
proof fn lemma_splice_is_step(buf: Seq<u8>, num: int, s: int, p: Seq<u8>)
    requires s > 0, num >= 0, p.len() == s
    ensures b1_step(buf, b1_buf(buf, num, s, p), num, s, p)
{
    lemma_mul_mono(0, num, s);
    if num * s <= buf.len() {
        lemma_splice_take(buf, num * s, num * s + s, p);
        assert(zero_ext(buf, num * s) == buf);
        assert(buf.subrange(0, num * s) =~= buf.take(num * s));
        let d = zero_ext(buf, num * s + s);
        assert(b1_buf(buf, num, s, p).len() == d.len());
    }
}
// the first j blocks of `body` are in the buffer
pub open spec fn prefix_ok(buf: Seq<u8>, body: Seq<u8>, s: int, j: int) -> bool { buf.len() >= j * s && buf.take(j * s) == body.take(j * s) }
proof fn lemma_mul_mono(a: int, b: int, s: int) requires a <= b, s >= 0 ensures a * s <= b * s { assert(a * s <= b * s) by (nonlinear_arith) requires a <= b, s >= 0; }
// induction step of the upload history: with blocks 0..j buffered, an accepted block num <= j of the same body (the next
// block: num == j; a block delivered again: num == j - 1; the upload started over: num == 0) leaves blocks 0..num+1
// buffered - whatever was in the buffer before the upload began (j == 0: nothing is assumed about it)
proof fn lemma_b1_step_prefix(buf0: Seq<u8>, buf1: Seq<u8>, body: Seq<u8>, s: int, j: int, num: int)
    requires s > 0, 0 <= num <= j, (num + 1) * s <= body.len(), j * s <= body.len(), prefix_ok(buf0, body, s, j),
        b1_step(buf0, buf1, num, s, body.subrange(num * s, (num + 1) * s))
    ensures prefix_ok(buf1, body, s, num + 1)
{
    lemma_mul_mono(num, j, s);
    lemma_mul_mono(0, num, s);
    assert((num + 1) * s == num * s + s) by (nonlinear_arith);
    let p = body.subrange(num * s, (num + 1) * s);
    assert(buf0.take(num * s) =~= buf0.take(j * s).take(num * s));
    assert(body.take(j * s).take(num * s) =~= body.take(num * s));
    assert(body.take(num * s) + p =~= body.take((num + 1) * s));
}
// C09: with the k full blocks of `body` buffered (however the history got there: in order, with blocks delivered again,
// over whatever an abandoned upload left), the final block with the remaining 0..s bytes hands the application exactly `body`
proof fn theorem_c09_upload_delivers_body(buf: Seq<u8>, body: Seq<u8>, s: int, k: int)
    requires s > 0, 0 <= k, k * s <= body.len() <= k * s + s, prefix_ok(buf, body, s, k)
    ensures b1_delivered(buf, k, s, body.subrange(k * s, body.len() as int)) == body
{
    lemma_mul_mono(0, k, s);
    let p = body.subrange(k * s, body.len() as int);
    assert(zero_ext(buf, k * s) == buf);
    assert(buf.subrange(0, k * s) =~= buf.take(k * s));
    assert(body.take(k * s) + p =~= body);
}

// ---------------------------------------------------------------- C08 history lemma
// block n of a body at block size s, as `served` states it
pub open spec fn block_of(body: Seq<u8>, n: int, s: int) -> Seq<u8> { body.subrange(n * s, min_int((n + 1) * s, body.len() as int)) }
pub open spec fn blocks_concat(body: Seq<u8>, s: int, k: int) -> Seq<u8>
    decreases k
{ if k <= 0 { Seq::empty() } else { blocks_concat(body, s, k - 1) + block_of(body, k - 1, s) } }
proof fn lemma_blocks_concat(body: Seq<u8>, s: int, k: int)
    requires s > 0, 0 <= k, (k - 1) * s < body.len() || k == 0
    ensures blocks_concat(body, s, k) == body.subrange(0, min_int(k * s, body.len() as int))
    decreases k
{
    if k > 0 {
        lemma_mul_mono(k - 1, k, s);
        assert((k - 1) * s + s == k * s) by (nonlinear_arith);
        if k - 1 > 0 { lemma_mul_mono(k - 2, k - 1, s); }
        lemma_mul_mono(0, k - 1, s);
        lemma_blocks_concat(body, s, k - 1);
        let len = body.len() as int;
        assert(min_int((k - 1) * s, len) == (k - 1) * s);
        assert(body.subrange(0, (k - 1) * s) + body.subrange((k - 1) * s, min_int(k * s, len)) =~= body.subrange(0, min_int(k * s, len)));
    } else {
        assert(k * s == 0) by (nonlinear_arith) requires k == 0;
        assert(body.subrange(0, 0) =~= Seq::<u8>::empty());
    }
}
// C08: a client fetching blocks 0,1,2,... at block size s reassembles exactly the body: block n exists iff n*s < len,
// every non-final block has exactly s bytes and the more flag, the last one has the remainder and no more flag, and
// the concatenation of the K = ceil(len/s) blocks is the body
proof fn theorem_c08_blocks_reassemble(body: Seq<u8>, s: int, k: int)
    requires s > 0, k >= 1, (k - 1) * s < body.len() <= k * s
    ensures
        blocks_concat(body, s, k) == body,
        forall|n: int| 0 <= n < k - 1 ==> (#[trigger] block_of(body, n, s)).len() == s && (n + 1) * s < body.len(),
        block_of(body, k - 1, s).len() == body.len() - (k - 1) * s && !(k * s < body.len()),
        !(k * s < body.len()),          // a request for block k finds nothing: n*s >= len  (served: Err)
{
    lemma_blocks_concat(body, s, k);
    assert(body.subrange(0, body.len() as int) =~= body);
    assert((k - 1) * s + s == k * s) by (nonlinear_arith);
    lemma_mul_mono(0, k - 1, s);
    assert forall|n: int| 0 <= n < k - 1 implies (#[trigger] block_of(body, n, s)).len() == s && (n + 1) * s < body.len() by {
        lemma_mul_mono(n + 1, k - 1, s);
        lemma_mul_mono(0, n, s);
        assert(n * s + s == (n + 1) * s) by (nonlinear_arith);
    }
}
// a client that lowers the block size mid-transfer rescales the block number so that the byte offset stays the
// same (RFC 7959 2.4): the block it gets then starts at that offset
proof fn lemma_c08_rescaled_offset(body: Seq<u8>, n: int, s: int, n2: int, s2: int)
    requires s > 0, s2 > 0, n >= 0, n2 >= 0, n * s == n2 * s2, n * s < body.len()
    ensures block_of(body, n2, s2) == body.subrange(n * s, min_int(n * s + s2, body.len() as int))
{
    assert(n2 * s2 + s2 == (n2 + 1) * s2) by (nonlinear_arith);
}

// ---------------------------------------------------------------- vacuity probes for the stubs
// (each must FAIL in the vacuity run: a stub whose assumed contract were contradictory would make
// everything after a call to it verify trivially)
fn probe_negotiate(rb: Option<&BlockValue>, ms: usize, tp: usize, mx: usize)
    requires rb is Some ==> rb->0.size_exponent <= 7, tp <= ms, ms <= usize::MAX / 4
{
    let r = BlockHandler::<u8>::negotiate_block_size_if_necessary(rb, ms, tp, mx);
    // @VACUITY-ONLY proof { assert(false); }
}
fn probe_compute(p: &mut Packet) {
    let r = BlockHandler::<u8>::compute_message_size_hack(p);
    // @VACUITY-ONLY proof { assert(false); }
}
fn probe_splice(dst: &mut Vec<u8>, a: usize, b: usize, w: &Vec<u8>, max: usize) requires a <= b {
    let r = extending_splice_u8(dst, a, b, w, max);
    // @VACUITY-ONLY proof { assert(false); }
}
fn probe_chunks(d: &Vec<u8>, size: usize, n: usize) requires size > 0 {
    let mut c = chunks_skip(d, size, n);
    let x = c.next();
    let y = c.next();
    // @VACUITY-ONLY proof { assert(false); }
}
fn probe_entry(c: &mut StateCache, k: CacheKey) {
    let st = states_entry(c, k);
    st.cached_request_payload = None;
    // @VACUITY-ONLY proof { assert(false); }
}
fn probe_set_single(p: &mut Packet, b: BlockValue) requires b.size_exponent <= 7 {
    set_single_option_as(p, CoapOption::Block2, b);
    // @VACUITY-ONLY proof { assert(false); }
}
fn probe_codec(v: Vec<u8>, b: BlockValue) requires b.size_exponent <= 7 {
    let x = BlockValue::try_from(v);
    let y: Vec<u8> = b.into();
    let z = BlockValue { num: 1, more: true, size_exponent: 3 }.size();
    // @VACUITY-ONLY proof { assert(false); }
}

// ---------------------------------------------------------------- request / response / state
use core::mem;
pub uninterp spec fn overhead_of(p: Packet) -> nat;
// every option value fits the 16-bit extended length (true of every parsed message); then the size measurement cannot fail (unit msz)
pub open spec fn opts_encodable(p: Packet) -> bool {
    forall|k: u16, i: int| opts_view(p.options).contains_key(k) && 0 <= i < opts_view(p.options)[k].len() ==> (#[trigger] opts_view(p.options)[k][i]).len() <= 65804
}    // encoded size without the payload (unit enc)
pub struct CoapResponse { pub message: Packet }
pub struct CoapRequest<Endpoint> { pub message: Packet, pub response: Option<CoapResponse>, pub source: Option<Endpoint> }
'''

BH = 'impl<Endpoint: Ord + Clone> BlockHandler<Endpoint>'


def extra_items(u):
    u.item('packet.rs', "pub type Options<'a>")
    u.consts('block_handler/mod.rs')
    u.item('block_handler/mod.rs', 'pub struct BlockState')
    u.raw('pub struct BlockHandler<Endpoint: Ord + Clone> { pub config: BlockHandlerConfig, pub states: StateCache, pub e: Option<Endpoint> }', 'units/blk.py (R24: cache field abstracted)')
    u.impl_fns('block_handler/mod.rs', BH, ['intercept_request', 'intercept_response', 'maybe_handle_request_block1', 'maybe_handle_request_block2', 'maybe_serve_cached_response', 'packet_clone_limited', 'compute_message_size_hack', 'negotiate_block_size_if_necessary'])


def build(repo):
    u = Unit(NAME, repo)
    acc.populate(u, extra_items=extra_items, extra_spec=SPEC, extra_packet_fns=['options'])
    u.pub_fields('BlockState')
    u.rule('derive-drop:BlockState', r'#\[derive\(Debug, Clone, Default\)\]\s*pub struct BlockState', 'pub struct BlockState', 1)
    B1 = (BH, 'maybe_handle_request_block1')
    # ---- callee contracts (stubs with the real signatures) -----------------------------------
    u.stub_fn((BH, 'negotiate_block_size_if_necessary'))
    u.contract((BH, 'negotiate_block_size_if_necessary'), '''        requires request_block is Some ==> request_block->0.size_exponent <= 7, total_payload_size <= message_size, message_size <= usize::MAX / 4
        ensures neg_post(deref_opt(request_block), message_size as int, total_payload_size as int, max_total_message_size as int, r)''')
    u.stub_fn((BH, 'compute_message_size_hack'))
    u.contract((BH, 'compute_message_size_hack'), '''        ensures *final(packet) == *old(packet), r is Err ==> r->Err_0.code is Some,
            opts_encodable(*old(packet)) ==> r is Ok,
            r is Ok ==> r->Ok_0 == overhead_of(*old(packet)) + old(packet).payload@.len() && r->Ok_0 <= usize::MAX / 4''')
    u.rule('R21:extending_splice', r'extending_splice\(\s*(&mut \w+|\w+),\s*(\w+)\s*\.\.\s*([^,]+),\s*([\w\.]+)\.iter\(\)\.copied\(\),\s*((?:[^,()]|\([^()]*\))+?),?\s*\)',
           r'extending_splice_u8(\1, \2, \3, &\4, \5)', 1)
    u.rule('R24:states-entry', r'self\s*\.states\s*\.entry\(request\.deref\(\)\.into\(\)\)\s*\.or_insert\(BlockState::default\(\)\)',
           'states_entry(&mut self.states, request_key(request))', 2)
    u.rule('R23:ref-mut-pattern', r'if let Some\(ref mut response\) = request\.response \{', 'if let Some(response) = &mut request.response {', 1)
    u.rule('R27:packet-clone', r'response\.message\.clone\(\)', 'packet_clone(&response.message)', 1)
    u.rule('R0:alloc-path', r'alloc::collections::btree_map::Iter', 'std::collections::btree_map::Iter', 1)
    u.rule('R9:format!', r'format!\((?:[^()]|\([^()]*\))*\)', 'fmt_stub()', (0, 9))
    u.rule('R20:set_options_as-single', r'(\w+(?:\.\w+)*)\.set_options_as::<BlockValue>\(\s*(CoapOption::\w+),\s*\[(\w+)\]\.into\(\),?\s*\)',
           r'set_single_option_as(&mut \1, \2, \3)', 1)
    u.rule('R23:ref-pattern-in-for', r'for \(&option, value\) in src\.options\(\) \{', 'for (option_ref, value) in src.options() { let option = *option_ref;', 1)
    u.rule('R22:clone_from', r'(\w[\w\.]*)\.clone_from\(&(\w+)\);', r'\1 = \2.clone();', (0, 2))
    u.rule('R23:ref-pattern', r'if let Some\(ref response\) = state\.cached_response \{', 'if let Some(response) = &state.cached_response {', 1)
    u.rule('R19:chunks-skip', r'((?:[\w&]+\s*\.\s*)*[\w&]+)\s*\.chunks\(((?:[^()]|\([^()]*\))+?)\)\s*\.skip\(((?:[^()]|\([^()]*\))+?)\)', r'chunks_skip(\1, \2, \3)', 1)
    u.rule('R6:extend-slice', r'response_payload\.extend\(cached_payload_chunk\);', 'vec_extend_slice(response_payload, cached_payload_chunk);', 1)
    u.rule('R1:deque-clone', r'dst\.set_option\(CoapOption::from\(option\), value\.clone\(\)\);', 'dst.set_option(CoapOption::from(option), deque_clone(value));', 1)
    for fn in ['maybe_handle_request_block2']:
        u.closure((BH, fn), r'\|x\|', 'x: Result<BlockValue, IncompatibleOptionValueFormat>', 'o: Option<BlockValue>', 'ensures x is Ok ==> o == Some(x->Ok_0), x is Err ==> o is None')
    u.contract(('impl Packet', 'options'), '        ensures call_ensures(BTreeMap::<u16, VecDeque<Vec<u8>>>::iter, (&self.options,), r)', props=['C08', 'C12'])
    PCL = (BH, 'packet_clone_limited')
    u.contract(PCL, '''        ensures
            // the code comes from the cached reply (version and type bits are copied too; no property depends on them) ...
            final(dst).header.code == src.header.code,
            // ... message id, token (and its length field) and payload stay those of the current reply (C12)
            tkl_of(final(dst).header.ver_type_tkl) == tkl_of(old(dst).header.ver_type_tkl),
            final(dst).header.message_id == old(dst).header.message_id, final(dst).token@ == old(dst).token@, final(dst).payload@ == old(dst).payload@,
            // every option of the cached reply is repeated (C08)
            opts_view(final(dst).options) == overlay(opts_view(old(dst).options), opts_view(src.options))''', props=['C08', 'C12'])
    u.body_start(PCL, '''        broadcast use vstd::std_specs::btree::group_btree_axioms;
        let ghost d0 = opts_view(dst.options);
        let ghost sv = opts_view(src.options);
        let ghost mut visited: Set<u16> = Set::empty();
        proof { reveal(opts_view); }''')
    u.loop(PCL, 0, '''            invariant
                dst.header.code == src.header.code,
                tkl_of(dst.header.ver_type_tkl) == tkl_of(old(dst).header.ver_type_tkl),
                dst.header.message_id == old(dst).header.message_id, dst.token@ == old(dst).token@, dst.payload@ == old(dst).payload@,
                sv == opts_view(src.options), d0 == opts_view(old(dst).options),
                forall|i: int| 0 <= i < it.seq().len() ==> src.options@.contains_key(*(#[trigger] it.seq()[i]).0) && src.options@[*it.seq()[i].0] == *it.seq()[i].1,
                forall|k: u16| #![trigger src.options@.contains_key(k)] src.options@.contains_key(k) ==> exists|i: int| 0 <= i < it.seq().len() && *(#[trigger] it.seq()[i]).0 == k,
                // keys already visited carry the cached values, all others are as they were
                forall|i: int| 0 <= i < it.index() ==> visited.contains(*(#[trigger] it.seq()[i]).0),
                forall|k: u16| #[trigger] visited.contains(k) ==> sv.contains_key(k) && opts_view(dst.options).contains_key(k) && opts_view(dst.options)[k] == sv[k],
                forall|k: u16| !visited.contains(k) ==> (#[trigger] opts_view(dst.options).contains_key(k) == d0.contains_key(k)) && (d0.contains_key(k) ==> opts_view(dst.options)[k] == d0[k]),''', iter_name='it')
    u.after(PCL, r'let option = \*option_ref;', '''            let ghost before = opts_view(dst.options);
            proof { reveal(opts_view); assert(sv.contains_key(option) && sv[option] == vals_view(*value)); }''')
    u.after_stmt(PCL, r'dst\.set_option\(', '''            proof {
                let after = opts_view(dst.options);
                assert(after == before.insert(option, vals_view(*value)));
                visited = visited.insert(option);
            }''')
    u.body_end(PCL, '''        proof {
            let fin = opts_view(dst.options);
            reveal(opts_view);
            assert forall|k: u16| sv.contains_key(k) implies visited.contains(k) by {
                assert(src.options@.contains_key(k));
            }
            assert(fin =~= overlay(d0, sv));
        }''')
    MS = (BH, 'maybe_serve_cached_response')
    u.contract(MS, '''        requires request_block2.size_exponent <= 7
        ensures
            served_frame(*old(request), *final(request), r),
            served_err(*old(request), r), // @props C11
            served_corr(*old(request), *final(request)), // @props C12
            served_block(*old(request), *final(request), request_block2, *cached_response, r), // @props C08''', props=['C08', 'C11', 'C12'])
    u.before(MS, r'let mut chunks =', '''        proof {
            let s = sz(request_block2.size_exponent);
            assert(16 <= s <= 2048);
            assert((request_block2.num as int) * s <= 65535 * 2048) by (nonlinear_arith) requires 0 <= request_block2.num as int <= 65535, 0 <= s <= 2048;
            assert((request_block2.num as int + 2) * s <= 65537 * 2048) by (nonlinear_arith) requires 0 <= request_block2.num as int <= 65535, 0 <= s <= 2048;
        }''')
    u.before(MS, r'let response_payload = &mut', '''        proof {
            // (an empty body: block 0 is the empty block, nothing follows it)
            let n = request_block2.num as int; let s = sz(request_block2.size_exponent);
            assert(n == 0 ==> n * s == 0) by (nonlinear_arith);
            assert((n + 1) * s == n * s + s) by (nonlinear_arith);
            if n == 0 && cached_response.payload@.len() == 0 { assert(cached_payload_chunk@ =~= cached_response.payload@.subrange(0, 0)); }
        }''')
    # the error of a missing block is built in a closure (`ok_or_else(|| ..)`) or returned directly
    _sp = u._fn_span(MS)
    if re.search(r'\|\|', _sp[0].code[_sp[2]:_sp[3]]):
        u.closure(MS, r'\|\|', '', 'e: HandlingError', 'ensures e.code is Some')
    FRAME = '''
            // C12 isolation: only the state stored under this request's key is read or written; every other
            // key's state is untouched (it may only disappear by expiry, R24)
            final(self).config == old(self).config,
            forall|k: int| k != key_of(*old(request)) && #[trigger] final(self).states.m@.contains_key(k) ==> old(self).states.m@.contains_key(k) && final(self).states.m@[k] == old(self).states.m@[k],
            // C12 reply ownership: whatever the handler does to the reply, message id and token stay those CoapResponse::new took from this request
            (old(request).response is Some ==> final(request).response is Some
                && final(request).response->0.message.header.message_id == old(request).response->0.message.header.message_id
                && final(request).response->0.message.token@ == old(request).response->0.message.token@
                && tkl_of(final(request).response->0.message.header.ver_type_tkl) == tkl_of(old(request).response->0.message.header.ver_type_tkl)),
            // C11: errors can be rendered as a reply (or there is no reply to render into)
            r is Err ==> (r->Err_0.code is Some || old(request).response is None),
            final(request).source == old(request).source,'''
    u.contract((BH, 'intercept_request'), '''        requires cache_wf(old(self).states), old(request).message.payload@.len() <= usize::MAX / 8,
            key_stable(*old(request)),
        ensures cache_wf(final(self).states),''' + FRAME, props=['C11', 'C12'])
    u.contract((BH, 'intercept_response'), '''        requires cache_wf(old(self).states), old(request).message.payload@.len() <= usize::MAX / 8,
            old(request).response is Some ==> old(request).response->0.message.payload@.len() <= usize::MAX / 8,
        ensures cache_wf(final(self).states),
            final(request).message == old(request).message,
            final(self).states.m@.contains_key(key_of(*old(request))),
            r is Ok ==> exists|st0: BlockState| ((old(self).states.m@.contains_key(key_of(*old(request))) && st0 == old(self).states.m@[key_of(*old(request))]) || is_default(st0))
                && #[trigger] intercept_resp_post(*old(request), *final(request), st0, final(self).states.m@[key_of(*old(request))], old(self).config.max_total_message_size as int, r), // @props C08 C10''' + FRAME, props=['C08', 'C10', 'C11', 'C12'])
    u.contract((BH, 'maybe_handle_request_block2'), '''        requires st_wf(*old(state))
        ensures
            st_wf(*final(state)),
            // the client's latest Block2 preference is remembered (or forgotten when the request carries none)
            final(state).last_request_block2 == first_block(opts_view(old(request).message.options), 23),
            final(state).cached_request_payload == old(state).cached_request_payload,
            // whatever the case (C11, C12): the request itself is left alone, errors can be rendered, the reply stays the one
            // prepared for THIS request (message id, token)
            final(request).message == old(request).message, final(request).source == old(request).source,
            (final(request).response is Some) == (old(request).response is Some),
            r is Err ==> (r->Err_0.code is Some || old(request).response is None),
            old(request).response is Some ==> ({
                let m0 = old(request).response->0.message; let m1 = final(request).response->0.message;
                m1.header.message_id == m0.header.message_id && m1.token@ == m0.token@ && tkl_of(m1.header.ver_type_tkl) == tkl_of(m0.header.ver_type_tkl) }),
            // C08: a follow-up block (number above 0) of a cached reply is served from the cache, the application is not
            // consulted (Ok(true)); the cache entry is released exactly when the final block has been served.  (What a request
            // for block 0 does while an unfinished reply is cached is outside C08: serving it again and starting afresh are both fine.)
            ({ // @clause follow-up-served-from-cache @props C08
                let b = first_block(opts_view(old(request).message.options), 23);
                b is Some && old(state).cached_response is Some && b->0.num > 0 ==> {
                    &&& served(*old(request), *final(request), b->0, old(state).cached_response->0, if r is Ok { Ok(!(final(state).cached_response is None)) } else { Err(r->Err_0) })
                    &&& (r is Ok ==> r->Ok_0)
                    &&& (r is Err ==> final(state).cached_response == old(state).cached_response)
                    &&& (r is Ok ==> (final(state).cached_response is None || final(state).cached_response == old(state).cached_response))
                } }),
            // C08: nothing cached or no Block2 option: the request goes to the application untouched
            ({ // @clause start-goes-to-application @props C08
                let b = first_block(opts_view(old(request).message.options), 23);
                b is None || old(state).cached_response is None ==> {
                    &&& r is Ok && !r->Ok_0
                    &&& *final(request) == *old(request)
                    &&& (final(state).cached_response == old(state).cached_response || final(state).cached_response is None)
                } })''', props=['C08', 'C11', 'C12'])
    u.contract(B1, '''        requires st_wf(*old(state)), old(request).message.payload@.len() <= usize::MAX / 8
        ensures
            st_wf(*final(state)),
            final(state).last_request_block2 == old(state).last_request_block2, final(state).cached_response == old(state).cached_response,
            final(request).source == old(request).source,
            final(request).response is Some == old(request).response is Some,
            // C11: every error can be rendered as a reply, unless there is no reply to render it into
            r is Err ==> (r->Err_0.code is Some || old(request).response is None),
            same_but_payload(final(request).message, old(request).message),
            // C12: whatever happens, the reply keeps the message id and token of the request being answered
            old(request).response is Some ==> same_correlation(final(request).response->0.message, old(request).response->0.message),
            // ---- the Block1 step.  b = decoded Block1 option, p = payload, off = byte offset of the block,
            //      buf = the buffer with [off, off+size) replaced by p (zero-extended if needed)
            // C11: a block whose offset lies more than 16 KiB beyond the buffered data is rejected, buffered data unchanged
            ({ // @clause reject-far-block @props C11
               let b = first_block(opts_view(old(request).message.options), 27);
               b is Some && (b->0.num as int) * sz(b->0.size_exponent) > buf_of(*old(state)).len() + 16384
                   ==> r is Err && buf_of(*final(state)) == buf_of(*old(state)) && same_msg(final(request).message, old(request).message) }),
            // C11: whenever a block is rejected the buffered data is unchanged
            ({ // @clause rejected-unchanged @props C11
               let b = first_block(opts_view(old(request).message.options), 27);
               b is Some && r is Err && old(request).response is Some ==> buf_of(*final(state)) == buf_of(*old(state)) }),
            // C11: an accepted block grows the buffer by at most 16 KiB plus its own payload
            ({ // @clause bounded-growth @props C11
               let b = first_block(opts_view(old(request).message.options), 27); let p = old(request).message.payload@;
               b is Some && r is Ok && b->0.more ==> buf_of(*final(state)).len() <= buf_of(*old(state)).len() + 16384 + p.len()
                   && old(request).response is Some }),
            // C09: a non-final block is buffered and answered 2.31 Continue + Block1; the application is not reached
            ({ // @clause nonfinal-buffered-continue @props C09
               let b = first_block(opts_view(old(request).message.options), 27); let p = old(request).message.payload@;
               b is Some && r is Ok && b->0.more ==> r->Ok_0 && final(state).cached_request_payload is Some
                   // (a non-final block carries exactly `size` bytes, RFC 7959 2.2; nothing is claimed about the buffer for a short one)
                   && (p.len() == sz(b->0.size_exponent) ==> b1_step(buf_of(*old(state)), buf_of(*final(state)), b->0.num as int, sz(b->0.size_exponent), p))
                   && same_msg(final(request).message, old(request).message)
                   && final(request).response->0.message.header.code == MessageClass::Response(ResponseType::Continue)
                   && final(request).response->0.message.payload@ == old(request).response->0.message.payload@
                   && exists|nb: BlockValue| nb.size_exponent <= 7
                       // C10: the Block1 value in the reply is the negotiation result for this request's overhead and the configured budget
                       && neg_post(b, overhead_of(old(request).message) as int + old(request).message.payload@.len() as int, old(request).message.payload@.len() as int, max_total_message_size as int, Ok(Some(nb)))
                       && #[trigger] opts_view(final(request).response->0.message.options)
                           == push_opt(opts_view(old(request).response->0.message.options), 27, block_bytes(nb)) }),
            // C09: the final block hands the application the assembled body, which ends with this block; the buffer is released
            ({ // @clause final-delivers-body @props C09
               let b = first_block(opts_view(old(request).message.options), 27); let p = old(request).message.payload@;
               b is Some && r is Ok && !b->0.more ==> !r->Ok_0 && final(state).cached_request_payload is None
                   && final(request).message.payload@ == b1_delivered(buf_of(*old(state)), b->0.num as int, sz(b->0.size_exponent), p)
                   && final(request).response->0.message.header.code == old(request).response->0.message.header.code
                   && exists|nb: BlockValue| nb.size_exponent <= 7
                       // C10: the Block1 value in the reply is the negotiation result for this request's overhead and the configured budget
                       && neg_post(b, overhead_of(old(request).message) as int + old(request).message.payload@.len() as int, old(request).message.payload@.len() as int, max_total_message_size as int, Ok(Some(nb)))
                       && #[trigger] opts_view(final(request).response->0.message.options)
                           == push_opt(opts_view(old(request).response->0.message.options), 27, block_bytes(nb)) }),
            // C09: a block delivered in order is accepted whenever there is a reply to answer with and the budget admits
            // the client's block size (in particular a block delivered a second time in a row)
            ({ // @clause block-accepted @props C09
               let b = first_block(opts_view(old(request).message.options), 27);
               let ov = overhead_of(old(request).message) as int; let m = max_total_message_size as int;
               b is Some && old(request).response is Some && opts_encodable(old(request).message)
                   && old(request).message.payload@.len() <= sz(b->0.size_exponent)
                   // "in order": the block starts inside or right at the end of what is buffered (next block, a block delivered
                   // again, or block 0 over an abandoned upload); how far beyond that a handler is willing to jump is its own
                   // choice, bounded from above by C11 only
                   && (b->0.num as int) * sz(b->0.size_exponent) <= buf_of(*old(state)).len()
                   && sz(b->0.size_exponent) + ov + 32 <= m && m <= 1280 ==> r is Ok }),
            // C09 "exactly once": a final block with num > 0 that finds no upload in progress (the final block
            // delivered a second time) must not be handed to the application
            ({ // @clause final-duplicate-not-delivered @props C09
               let b = first_block(opts_view(old(request).message.options), 27);
               b is Some && !b->0.more && b->0.num > 0 && old(state).cached_request_payload is None ==> !(r is Ok && !r->Ok_0) }),
            // C09: without a Block1 option the request is untouched (fits) or answered 4.13 with a Block1 size hint
            ({ // @clause no-block1-413 @props C09
               let b = first_block(opts_view(old(request).message.options), 27);
               b is None && r is Ok ==> final(state).cached_request_payload == old(state).cached_request_payload
                   && same_msg(final(request).message, old(request).message)
                   && (!r->Ok_0 ==> final(request).response == old(request).response)
                   && (r->Ok_0 ==> old(request).response is Some
                           && final(request).response->0.message.header.code == MessageClass::Response(ResponseType::RequestEntityTooLarge)
                           && exists|nb: BlockValue| nb.size_exponent <= 7
                       // C10: the Block1 value in the reply is the negotiation result for this request's overhead and the configured budget
                       && neg_post(b, overhead_of(old(request).message) as int + old(request).message.payload@.len() as int, old(request).message.payload@.len() as int, max_total_message_size as int, Ok(Some(nb)))
                       && #[trigger] opts_view(final(request).response->0.message.options)
                                   == push_opt(opts_view(old(request).response->0.message.options), 27, block_bytes(nb))) }),''', props=['C09', 'C11', 'C12'])
    u.closure(B1, r'\|x\|', 'x: Result<BlockValue, IncompatibleOptionValueFormat>', 'o: Option<BlockValue>', 'ensures x is Ok ==> o == Some(x->Ok_0), x is Err ==> o is None')
    u.before(B1, r'let payload_offset\s*=', '''                proof {
                    let e = request_block1.size_exponent;
                    assert(e <= 7);
                    assert(16 <= sz(e) <= 2048);
                    assert((request_block1.num as int) * sz(e) <= 65535 * 2048) by (nonlinear_arith)
                        requires 0 <= request_block1.num as int <= 65535, 0 <= sz(e) <= 2048;
                    // (the product may be written either way round in the code)
                    assert(sz(e) * (request_block1.num as int) == (request_block1.num as int) * sz(e)) by (nonlinear_arith);
                }''')
    # C09 step: what the buffer holds up to the end of this block (stated from the buffer as it is right before the splice,
    # so that a handler which first drops stale data - e.g. restarts at block 0 - is covered by the same argument)
    u.before(B1, r'let payload_offset\s*=', '''                let ghost pre_splice = cached_payload@;''')
    u.after_stmt(B1, r'extending_splice_u8\(', '''                proof {
                    let n = request_block1.num as int; let sb = sz(request_block1.size_exponent); let p = request.message.payload@;
                    assert(n == 0 ==> n * sb == 0) by (nonlinear_arith);
                    if p.len() == sb {
                        lemma_splice_is_step(pre_splice, n, sb, p);
                        if n * sb <= buf_of(*old(state)).len() { assert(pre_splice.take(n * sb) =~= buf_of(*old(state)).take(n * sb)); }
                    }
                }''')
    IR = (BH, 'intercept_response')
    u.after_stmt(IR, r'let state = states_entry', '''        let ghost st0 = *state;
        let ghost q0 = *request;
        let ghost m = self.config.max_total_message_size as int;
        let ghost mut g_nb: Option<BlockValue> = None;''')
    u.after_stmt(IR, r'let cached_response = ', '''                    proof { g_nb = Some(request_block2); }''')
    u.replace_in(IR, 'final-hint', r'\n(\s*)Ok\(false\)\s*\}$', r'''
\1proof {
\1    if q0.response is None || opts_view(q0.response->0.message.options).contains_key(23) {
\1        assert(*request == q0 && *state == st0);
\1    } else {
\1        let msg = q0.response->0.message;
\1        let ms = overhead_of(msg) as int + msg.payload@.len() as int; let pl = msg.payload@.len() as int;
\1        if g_nb is None {
\1            assert(neg_post(st0.last_request_block2, ms, pl, m, Ok(None)));
\1            assert(*request == q0 && *state == st0);
\1        } else {
\1            assert(neg_post(st0.last_request_block2, ms, pl, m, Ok(Some(g_nb->0))));
\1            assert(served(q0, *request, g_nb->0, msg, Ok(false)));
\1        }
\1    }
\1    assert(intercept_resp_post(q0, *request, st0, *state, m, Ok(false)));
\1}
\1Ok(false)
    }''')
    u.before(IR, r'return Ok\(true\);', '''                        proof {
                            let msg = q0.response->0.message;
                            assert(neg_post(st0.last_request_block2, overhead_of(msg) as int + msg.payload@.len() as int, msg.payload@.len() as int, m, Ok(Some(request_block2))));
                            assert(served(q0, *request, request_block2, msg, Ok(true)));
                            assert(intercept_resp_post(q0, *request, st0, *state, m, Ok(true)));
                        }''')
    for fn, pr in [('theorem_c08_blocks_reassemble', ['C08']), ('lemma_blocks_concat', ['C08']), ('lemma_c08_rescaled_offset', ['C08']), ('theorem_c09_upload_delivers_body', ['C09']), ('lemma_b1_step_prefix', ['C09']), ('lemma_splice_is_step', ['C09'])]:
        u.probe(fn)
        u.props(fn, pr)
    u.finish(common.HEAD)
    return u
