"""Unit `rt`: spec-level lemmas over the contracts of the codec (spec/pktview.rs): what the encoder
emits parses back to the same message (C01), and whatever the parser accepts re-encodes to the
same bytes up to the two permitted differences (C02).  No executable code is verified here; the
lemmas compose the postconditions that units `enc` and `dec` prove on the real functions."""
from vf.unit import Unit
from . import common

NAME = 'rt'
PROPS = ['C01', 'C02']
RLIMIT = 60

THEOREMS = r'''
// ---------------------------------------------------------------- helper lemmas
pub open spec fn prevnum(s: Seq<Opt>, prev: int) -> int { if s.len() == 0 { prev } else { s.last().0 as int } }

// right-recursive wire_opts unfolds at the back as well
proof fn lemma_wire_opts_snoc(s: Seq<Opt>, prev: int)
    requires s.len() > 0
    ensures wire_opts(s, prev) == wire_opts(s.drop_last(), prev) + opt_hdr(s.last().0 - prevnum(s.drop_last(), prev), s.last().1.len() as int) + s.last().1
    decreases s.len()
{
    if s.len() == 1 {
        assert(s.drop_last() =~= Seq::<Opt>::empty());
        assert(s.drop_first() =~= Seq::<Opt>::empty());
        assert(wire_opts(s.drop_first(), s[0].0 as int) =~= Seq::<u8>::empty());
        assert(wire_opts(s.drop_last(), prev) =~= Seq::<u8>::empty());
        assert(wire_opts(s, prev) =~= opt_hdr(s[0].0 - prev, s[0].1.len() as int) + s[0].1);
    } else {
        let t = s.drop_first();
        lemma_wire_opts_snoc(t, s[0].0 as int);
        assert(t.drop_last() =~= s.drop_last().drop_first());
        assert(t.last() == s.last());
        assert(s.drop_last()[0] == s[0]);
        assert(prevnum(t.drop_last(), s[0].0 as int) == prevnum(s.drop_last(), prev)) by {
            if t.drop_last().len() > 0 { assert(t.drop_last().last() == s.drop_last().last()); }
        }
        assert(wire_opts(s.drop_last(), prev) == opt_hdr(s[0].0 - prev, s[0].1.len() as int) + s[0].1 + wire_opts(s.drop_last().drop_first(), s[0].0 as int));
        assert(wire_opts(s, prev) =~= wire_opts(s.drop_last(), prev) + opt_hdr(s.last().0 - prevnum(s.drop_last(), prev), s.last().1.len() as int) + s.last().1);
    }
}
// the encoder's left-recursive image equals the grammar's right-recursive one
proof fn lemma_wire_r_eq(s: Seq<Opt>)
    ensures wire_opts_r(s) == wire_opts(s, 0)
    decreases s.len()
{
    if s.len() > 0 {
        lemma_wire_r_eq(s.drop_last());
        lemma_wire_opts_snoc(s, 0);
        assert(prevnum(s.drop_last(), 0) == prev_num(s.drop_last()));
    }
}
proof fn lemma_sorted_from(s: Seq<Opt>, prev: int)
    requires nondecreasing(s), encodable(s), s.len() > 0 ==> prev <= s[0].0
    ensures sorted_from(s, prev)
    decreases s.len()
{
    if s.len() > 0 {
        let t = s.drop_first();
        assert(nondecreasing(t)) by { assert forall|i: int, j: int| 0 <= i <= j < t.len() implies t[i].0 <= t[j].0 by { assert(s[i + 1].0 <= s[j + 1].0); } }
        assert(encodable(t)) by { assert forall|i: int| 0 <= i < t.len() implies (#[trigger] t[i]).1.len() <= 65804 by { assert(t[i] == s[i + 1]); } }
        if t.len() > 0 { assert(s[0].0 <= s[1].0); }
        lemma_sorted_from(t, s[0].0 as int);
    }
}
// the flattened multimap is sorted by option number, all numbers below n
proof fn lemma_flat_sorted(m: Map<u16, Seq<Seq<u8>>>, n: int)
    requires 0 <= n <= 65536
    ensures nondecreasing(flat_map(m, n)), forall|i: int| 0 <= i < flat_map(m, n).len() ==> (#[trigger] flat_map(m, n)[i]).0 < n,
            map_encodable(m) ==> encodable(flat_map(m, n))
    decreases n
{
    if n > 0 {
        lemma_flat_sorted(m, n - 1);
        let pre = flat_map(m, n - 1); let k = (n - 1) as u16;
        if m.contains_key(k) {
            let t = tagged(k, m[k]);
            let f = flat_map(m, n);
            assert(f == pre + t);
            assert forall|i: int, j: int| 0 <= i <= j < f.len() implies f[i].0 <= f[j].0 by {
                if j < pre.len() { assert(f[i] == pre[i] && f[j] == pre[j]); }
                else if i < pre.len() { assert(f[i] == pre[i]); assert(f[j] == t[j - pre.len()]); }
                else { assert(f[i] == t[i - pre.len()]); assert(f[j] == t[j - pre.len()]); }
            }
            assert forall|i: int| 0 <= i < f.len() implies (#[trigger] f[i]).0 < n by {
                if i < pre.len() { assert(f[i] == pre[i]); } else { assert(f[i] == t[i - pre.len()]); }
            }
            if map_encodable(m) {
                assert forall|i: int| 0 <= i < f.len() implies (#[trigger] f[i]).1.len() <= 65804 by {
                    if i < pre.len() { assert(f[i] == pre[i]); } else { assert(f[i] == t[i - pre.len()]); assert(t[i - pre.len()].1 == m[k][i - pre.len()]); }
                }
            }
        } else {
            assert(flat_map(m, n) =~= pre);
        }
    }
}
// grouping the flattened multimap gives the multimap back, minus numbers whose list is empty
pub open spec fn nonempty_below(m: Map<u16, Seq<Seq<u8>>>, n: int) -> Map<u16, Seq<Seq<u8>>> {
    m.restrict(m.dom().filter(|k: u16| k < n && m[k].len() > 0))
}
proof fn lemma_group_tagged(s: Seq<Opt>, k: u16, vals: Seq<Seq<u8>>)
    requires !group(s).contains_key(k)
    ensures group(s + tagged(k, vals)) == (if vals.len() == 0 { group(s) } else { group(s).insert(k, vals) })
    decreases vals.len()
{
    if vals.len() == 0 {
        assert(s + tagged(k, vals) =~= s);
    } else {
        let v0 = vals.drop_last();
        lemma_group_tagged(s, k, v0);
        assert(s + tagged(k, vals) =~= (s + tagged(k, v0)).push((k, vals.last())));
        lemma_group_push(s + tagged(k, v0), k, vals.last());
        if v0.len() == 0 {
            assert(group(s + tagged(k, vals)) =~= group(s).insert(k, Seq::<Seq<u8>>::empty().push(vals.last())));
            assert(Seq::<Seq<u8>>::empty().push(vals.last()) =~= vals);
        } else {
            assert(v0.push(vals.last()) =~= vals);
            assert(group(s + tagged(k, vals)) =~= group(s).insert(k, vals));
        }
    }
}
proof fn lemma_group_flat(m: Map<u16, Seq<Seq<u8>>>, n: int)
    requires 0 <= n <= 65536
    ensures group(flat_map(m, n)) == nonempty_below(m, n)
    decreases n
{
    if n == 0 {
        lemma_group_empty();
        assert(flat_map(m, 0) =~= Seq::<Opt>::empty());
        assert(nonempty_below(m, 0) =~= Map::<u16, Seq<Seq<u8>>>::empty());
    } else {
        lemma_group_flat(m, n - 1);
        let k = (n - 1) as u16; let pre = flat_map(m, n - 1);
        if m.contains_key(k) {
            assert(!group(pre).contains_key(k));
            lemma_group_tagged(pre, k, m[k]);
            if m[k].len() == 0 { assert(nonempty_below(m, n) =~= nonempty_below(m, n - 1)); }
            else { assert(nonempty_below(m, n) =~= nonempty_below(m, n - 1).insert(k, m[k])); }
        } else {
            assert(flat_map(m, n) =~= pre);
            assert(nonempty_below(m, n) =~= nonempty_below(m, n - 1));
        }
    }
}
proof fn lemma_sorted_nondecreasing(s: Seq<Opt>, prev: int)
    requires sorted_from(s, prev)
    ensures nondecreasing(s), s.len() > 0 ==> prev <= s[0].0
    decreases s.len()
{
    if s.len() > 0 {
        let t = s.drop_first();
        lemma_sorted_nondecreasing(t, s[0].0 as int);
        assert forall|i: int, j: int| 0 <= i <= j < s.len() implies s[i].0 <= s[j].0 by {
            if i == 0 { if j > 0 { assert(t[0].0 <= t[j - 1].0); assert(t[j - 1] == s[j]); assert(t[0] == s[1]); } }
            else { assert(t[i - 1].0 <= t[j - 1].0); assert(t[i - 1] == s[i]); assert(t[j - 1] == s[j]); }
        }
    }
}
// what parse_opts accepts is sorted and encodable
proof fn lemma_parse_sorted(b: Seq<u8>, idx: int, prev: int)
    requires 0 <= idx <= b.len(), 0 <= prev <= 65535, parse_opts(b, idx, prev) is Some
    ensures sorted_from(parse_opts(b, idx, prev).unwrap().0, prev)
    decreases b.len() - idx
{
    if idx >= b.len() { } else if b[idx] == 0xFF { } else {
        let dn = (b[idx] as int) / 16; let ln = (b[idx] as int) % 16;
        let p1 = idx + 1; let p2 = p1 + ext_len(dn); let p3 = p2 + ext_len(ln);
        let delta = ext_val(b, p1, dn); let len = ext_val(b, p2, ln);
        lemma_parse_sorted(b, p3 + len, prev + delta);
        let r = parse_opts(b, p3 + len, prev + delta).unwrap();
        let s = parse_opts(b, idx, prev).unwrap().0;
        let item = ((prev + delta) as u16, b.subrange(p3, p3 + len));
        assert(s == seq![item] + r.0);
        assert(s[0] == item);
        assert(s.drop_first() =~= r.0);
    }
}

// ---------------------------------------------------------------- C01
// well-formed API-built message: TKL field agrees with the token (set_token), 0..8 bytes;
// every option value fits the 16-bit extended length; code is one the code table can name
pub open spec fn pkt_wf(p: Packet) -> bool {
    &&& (p.header.ver_type_tkl as int) % 16 == p.token@.len()
    &&& p.token@.len() <= 8
    &&& map_encodable(opts_view(p.options))
    &&& code_canonical(p.header.code)
}
pub open spec fn sent_payload(p: Packet) -> Seq<u8> {
    if u8_of_class(p.header.code) != 0 { p.payload@ } else { Seq::<u8>::empty() }
}
// Encoding then decoding: `bytes` is what the encoder contract (enc_post, r is Ok) yields for p,
// q is what the decoder contract (dec_post) yields for those bytes.
// the encoder's image has no marker, or marker + non-empty payload in a message whose code is not 0.00
proof fn lemma_wire_shape(b: Seq<u8>, pre: Seq<u8>, opts: Seq<(u16, Seq<u8>)>, tail: Seq<u8>)
    requires
        b == pre + wire_opts(opts, 0) + tail, b.len() >= 4, pre.len() == 4 + (b[0] as int) % 16,
        parse_opts(b, pre.len() as int, 0) == Some((opts, payload_of(tail))),
        tail.len() == 0 || (tail.len() > 1 && b[1] != 0),
    ensures enc_shape(b)
{
    let idx = pre.len() as int;
    lemma_wire_parse(b, idx, 0);
    assert(b.subrange(idx, b.len() as int) =~= wire_opts(opts, 0) + tail);
    assert(b.subrange(idx, b.len() as int) == wire_opts(opts, 0) + tail_of(b, idx));
    assert(tail_of(b, idx).len() == tail.len());
}
proof fn theorem_c01_encode_then_decode(p: Packet, r_enc: Result<Vec<u8>, MessageError>, r_dec: Result<Packet, MessageError>)
    requires
        pkt_wf(p), enc_pre(p),
        exists|limit: Option<usize>| enc_post(p, limit, r_enc),
        r_enc is Ok,
        dec_post(r_enc->Ok_0@, r_dec),
    ensures
        r_enc->Ok_0@ == pkt_wire(p),
        r_dec is Ok,
        r_dec->Ok_0.header.ver_type_tkl == p.header.ver_type_tkl,     // version, type, token length
        r_dec->Ok_0.header.code == p.header.code,
        r_dec->Ok_0.header.message_id == p.header.message_id,
        r_dec->Ok_0.token@ == p.token@,
        // same values per option number, in the same order; numbers whose list was cleared vanish
        opts_view(r_dec->Ok_0.options) == nonempty_below(opts_view(p.options), 65536),
        r_dec->Ok_0.payload@ == sent_payload(p),
{
    let b = pkt_wire(p);
    let view = opts_view(p.options);
    let opts = pkt_opts(p);
    let vtt = p.header.ver_type_tkl; let code = u8_of_class(p.header.code); let mid = p.header.message_id;
    let h = seq![vtt, code, (mid / 256) as u8, (mid % 256) as u8];
    let tail = if code != 0 && p.payload@.len() > 0 { seq![0xFFu8] + p.payload@ } else { Seq::<u8>::empty() };
    let pre = h + p.token@;
    assert(b == pre + wire_opts_r(opts) + tail);
    lemma_flat_sorted(view, 65536);
    lemma_sorted_from(opts, 0);
    lemma_wire_r_eq(opts);
    lemma_parse_wire(opts, 0, pre, tail);
    assert(pre.len() == 4 + p.token@.len());
    assert(b[0] == vtt && b[1] == code && b[2] == (mid / 256) as u8 && b[3] == (mid % 256) as u8) by {
        assert(b[0] == h[0]); assert(b[1] == h[1]); assert(b[2] == h[2]); assert(b[3] == h[3]);
    }
    assert(b.subrange(4, 4 + p.token@.len() as int) =~= p.token@);
    assert(((mid / 256) as u8 as int) * 256 + ((mid % 256) as u8 as int) == mid as int);
    let m = parse_msg(b);
    assert(m is Some);
    // the encoder's image has no marker, or marker + non-empty payload in a message whose code is not 0.00
    assert(pre.len() == 4 + (b[0] as int) % 16) by { lemma_nibbles(vtt); }
    lemma_wire_shape(b, pre, opts, tail);
    assert(m->0.opts == opts);
    assert(m->0.payload == payload_of(tail));
    assert(payload_of(tail) =~= (if code != 0 { p.payload@ } else { Seq::<u8>::empty() })) by {
        if code != 0 && p.payload@.len() > 0 { assert(tail.subrange(1, tail.len() as int) =~= p.payload@); }
    }
    lemma_group_flat(view, 65536);
}

// ---------------------------------------------------------------- C02
// the two permitted differences: a marker with nothing after it, and whatever follows the
// options of a 0.00 message, are dropped
pub open spec fn canon(b: Seq<u8>) -> Seq<u8> {
    let t = tail_of(b, 4 + (b[0] as int) % 16);
    if b[1] != 0 && t.len() > 1 { b } else { b.subrange(0, b.len() - t.len()) }
}
pub open spec fn spec_wire(m: MsgSpec) -> Seq<u8> { wire_msg(m.vtt, m.code, m.mid, m.token, m.opts, m.payload) }

proof fn lemma_tail_len(b: Seq<u8>, idx: int)
    requires 0 <= idx <= b.len()
    ensures tail_of(b, idx).len() <= b.len() - idx
    decreases b.len() - idx
{
    if idx < b.len() && b[idx] != 0xFF {
        let dn = (b[idx] as int) / 16; let ln = (b[idx] as int) % 16;
        let p2 = idx + 1 + ext_len(dn); let p3 = p2 + ext_len(ln);
        if !(dn == 15 || ln == 15 || p3 > b.len() || p3 + ext_val(b, p2, ln) > b.len()) { lemma_tail_len(b, p3 + ext_val(b, p2, ln)); }
    }
}
// every accepted datagram is the wire image of its parse (up to canon): decoding loses nothing
proof fn theorem_c02_spec(b: Seq<u8>)
    requires parse_msg(b) is Some
    ensures spec_wire(parse_msg(b)->0) == canon(b),
            nondecreasing(parse_msg(b)->0.opts), encodable(parse_msg(b)->0.opts),
            parse_msg(b)->0.token.len() <= 8, parse_msg(b)->0.payload.len() <= b.len(),
{
    let tkl = (b[0] as int) % 16; let idx = 4 + tkl;
    let m = parse_msg(b)->0;
    lemma_wire_parse(b, idx, 0);
    lemma_parse_sorted(b, idx, 0);
    lemma_sorted_nondecreasing(m.opts, 0);
    lemma_sorted_encodable(m.opts, 0);
    lemma_wire_r_eq(m.opts);
    lemma_tail_len(b, idx);
    let t = tail_of(b, idx);
    let h = seq![m.vtt, m.code, (m.mid / 256) as u8, (m.mid % 256) as u8];
    assert((m.mid / 256) as u8 == b[2] && (m.mid % 256) as u8 == b[3]) by {
        let x = (b[2] as int) * 256 + b[3] as int;
        assert(x / 256 == b[2] as int && x % 256 == b[3] as int);
    }
    assert(b.subrange(0, 4) =~= h);
    assert(b =~= b.subrange(0, 4) + b.subrange(4, idx) + b.subrange(idx, b.len() as int));
    let body = h + m.token + wire_opts_r(m.opts);
    assert(b =~= body + t);
    assert(b.subrange(0, b.len() - t.len()) =~= body);
    if m.code != 0 && m.payload.len() > 0 {
        assert(t.len() > 1);
        assert(t =~= seq![0xFFu8] + m.payload);
    } else if t.len() > 1 {
        assert(m.payload.len() > 0);
    }
}
proof fn lemma_sorted_encodable(s: Seq<Opt>, prev: int)
    requires sorted_from(s, prev)
    ensures encodable(s)
    decreases s.len()
{
    if s.len() > 0 {
        let t = s.drop_first();
        lemma_sorted_encodable(t, s[0].0 as int);
        assert forall|i: int| 0 <= i < s.len() implies (#[trigger] s[i]).1.len() <= 65804 by { if i > 0 { assert(t[i - 1] == s[i]); } }
    }
}
proof fn lemma_group_encodable(s: Seq<Opt>)
    requires encodable(s)
    ensures map_encodable(group(s))
    decreases s.len()
{
    reveal(group);
    if s.len() > 0 {
        let s1 = s.drop_last();
        assert(encodable(s1)) by { assert forall|i: int| 0 <= i < s1.len() implies (#[trigger] s1[i]).1.len() <= 65804 by { assert(s1[i] == s[i]); } }
        lemma_group_encodable(s1);
        let g = group(s1); let x = s.last();
        assert(x.1.len() <= 65804) by { assert(s[s.len() - 1] == x); }
        let g2 = group(s);
        assert forall|k: u16, i: int| g2.contains_key(k) && 0 <= i < g2[k].len() implies (#[trigger] g2[k][i]).len() <= 65804 by {
            if k == x.0 {
                let old_vals = if g.contains_key(k) { g[k] } else { Seq::<Seq<u8>>::empty() };
                if i < old_vals.len() { assert(g[k][i].len() <= 65804); }
            } else { assert(g[k][i].len() <= 65804); }
        }
    }
}
// Decoding then re-encoding without a limit: q is what the decoder contract yields for b, r_enc
// what the encoder contract yields for q.
proof fn theorem_c02_decode_then_encode(b: Seq<u8>, r_dec: Result<Packet, MessageError>, r_enc: Result<Vec<u8>, MessageError>)
    requires
        b.len() <= 0x1000_0000,
        dec_post(b, r_dec), r_dec is Ok,
        enc_pre(r_dec->Ok_0) ==> enc_post(r_dec->Ok_0, None, r_enc),
    ensures
        enc_pre(r_dec->Ok_0),
        r_enc is Ok,
        r_enc->Ok_0@ == canon(b),
{
    let q = r_dec->Ok_0;
    let m = parse_msg(b)->0;
    theorem_c02_spec(b);
    lemma_class_roundtrip(m.code);
    lemma_flat_group(m.opts);
    lemma_group_encodable(m.opts);
    assert(pkt_opts(q) == m.opts);
    assert(pkt_wire(q) == spec_wire(m));
}
proof fn lemma_class_roundtrip(n: u8) ensures u8_of_class(class_of_u8(n)) == n, code_canonical(class_of_u8(n)) {}
// Consequence: no two accepted datagrams that differ (beyond the permitted differences) parse to
// equal messages.
proof fn corollary_c02_injective(b1: Seq<u8>, b2: Seq<u8>)
    requires parse_msg(b1) is Some, parse_msg(b2) is Some, parse_msg(b1) == parse_msg(b2)
    ensures canon(b1) == canon(b2)
{
    theorem_c02_spec(b1); theorem_c02_spec(b2);
}
'''


def build(repo):
    u = Unit(NAME, repo)
    u.prelude('views.rs', 'wire.rs', 'encwire.rs')
    u.raw(common.registry.class_spec(), 'spec/registry.py:class_spec')
    u.prelude('pktview.rs', 'roundtrip.rs')
    u.raw(THEOREMS, 'units/rt.py')
    u.raw(common.HEADERRAW_TRYFROM_SPEC + 'use crate::u16_from_be_bytes_stub as u16_from_be_bytes;' if False else common.HEADERRAW_TRYFROM_SPEC, 'units/common.py')
    u.prelude('std_stubs.rs')
    common.header_items(u, fns=['new', 'from_raw', 'to_raw'])
    common.packet_struct(u)
    u.assemble()
    common.common_rules(u)
    u.rule('R5:from_be_bytes', r'u16::from_be_bytes\(id_bytes\)', 'u16_from_be_bytes(id_bytes)', 1)
    for fn, pr in [('theorem_c01_encode_then_decode', ['C01']), ('theorem_c02_spec', ['C02']), ('theorem_c02_decode_then_encode', ['C02']),
                   ('corollary_c02_injective', ['C02'])]:
        u.probe(fn)
        u.props(fn, pr)
    u.finish(common.HEAD)
    return u
