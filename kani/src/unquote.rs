use coap_lite::link_format::Unquote;

const N: usize = 4;

fn any_ascii_from_alphabet() -> u8 {
    let k: u8 = kani::any();
    kani::assume(k < 4);
    match k { 0 => b'"', 1 => b'a', 2 => b',', _ => b' ' }
}

/// C17 (bounded stand-in): for every string of up to 4 characters over {'"', 'a', ',', ' '} (no
/// backslash: with a backslash to_cow() returns the iterator's own collect), iterating the
/// Unquote terminates without panicking and yields exactly the characters of to_cow().
#[kani::proof]
#[kani::unwind(9)]
fn unquote_to_cow_agrees_with_iterator() {
    let len: usize = kani::any();
    kani::assume(len <= N);
    let mut bytes = [b'a'; N];
    let mut i = 0;
    while i < N { if i < len { bytes[i] = any_ascii_from_alphabet(); } i += 1; }
    // the bytes are ASCII by construction; skipping std's UTF-8 validator keeps CBMC's work on the code under test
    let s = unsafe { core::str::from_utf8_unchecked(&bytes[..len]) };
    let u = Unquote::new(s);
    // character-by-character form
    let mut it = u.clone();
    let mut out = [0u8; N + 1];
    let mut n = 0usize;
    let mut steps = 0;
    while steps <= N {
        match it.next() { Some(c) => { out[n] = c as u8; n += 1; } None => break }
        steps += 1;
    }
    assert!(steps <= N);                 // terminates within len steps
    assert!(it.next().is_none());        // fused: nothing after the end
    // copy-on-write form
    let cow = u.to_cow();
    let cb = cow.as_bytes();
    assert!(cb.len() == n);
    let mut j = 0;
    while j < N { if j < n { assert!(cb[j] == out[j]); } j += 1; }
}
