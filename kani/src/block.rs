use coap_lite::block_handler::BlockValue;
use core::convert::TryFrom;
use crate::util::{fmt_stub, ref_uint_be_min};

/// C13 encode/decode: every (num: u16, more, szx 0..7) encodes to the minimal-length uint
/// NUM<<4 | M<<3 | SZX and decodes back to the same triple.
#[kani::proof]
#[kani::unwind(10)]
#[kani::stub(alloc::fmt::format, fmt_stub)]
fn block_codec_roundtrip() {
    let num: u16 = kani::any();
    let more: bool = kani::any();
    let szx: u8 = kani::any();
    kani::assume(szx <= 7);
    let bytes: Vec<u8> = BlockValue { num, more, size_exponent: szx }.into();
    let scalar: u64 = ((num as u64) << 4) | ((more as u64) << 3) | szx as u64;
    let (r, n) = ref_uint_be_min(scalar);
    assert!(bytes.len() == n);
    assert!(n <= 3);
    let mut i = 0;
    while i < n { assert!(bytes[i] == r[i]); i += 1; }
    match BlockValue::try_from(bytes) {
        Ok(b) => { assert!(b.num == num); assert!(b.more == more); assert!(b.size_exponent == szx); }
        Err(_) => assert!(false),
    }
}

/// C13 decode: every byte string of length <= 3 decodes to the triple of its big-endian value (an error only when the
/// block number does not fit); whether longer strings (leading zero bytes) are accepted is left open, but whatever is
/// accepted decodes to the triple of its value - never a wrapped or truncated one.
#[kani::proof]
#[kani::unwind(8)]
#[kani::stub(alloc::fmt::format, fmt_stub)]
fn block_decode_all_short_strings() {
    let len: usize = kani::any();
    kani::assume(len <= 5);
    let raw: [u8; 5] = kani::any();
    let mut v: Vec<u8> = Vec::with_capacity(5);
    let mut x: u64 = 0;
    let mut i = 0;
    while i < len { v.push(raw[i]); x = (x << 8) | raw[i] as u64; i += 1; }
    match BlockValue::try_from(v) {
        Ok(b) => {
            assert!((x >> 4) <= 0xFFFF);
            assert!(b.num as u64 == x >> 4);
            assert!(b.more == ((x >> 3) & 1 == 1));
            assert!(b.size_exponent as u64 == x & 7);
        }
        Err(_) => assert!(len > 3 || (x >> 4) > 0xFFFF),
    }
}

/// C13 size(): 2^(SZX+4) for every exponent a decoded value can carry.
#[kani::proof]
fn block_size_is_power() {
    let szx: u8 = kani::any();
    kani::assume(szx <= 7);
    let b = BlockValue { num: kani::any(), more: kani::any(), size_exponent: szx };
    assert!(b.size() == 16usize << szx);
}

/// C13 construction: over ALL (num, size) in usize x usize: picks the largest power of two not
/// exceeding size but at least 16; fails for size 0, size >= 4096... and for num > 65535.
#[kani::proof]
#[kani::unwind(66)]
#[kani::stub(alloc::fmt::format, fmt_stub)]
fn block_new_contract() {
    let num: usize = kani::any();
    let more: bool = kani::any();
    let size: usize = kani::any();
    match BlockValue::new(num, more, size) {
        Ok(b) => {
            assert!(size != 0);
            assert!(size < 4096);
            assert!(num <= 0xFFFF);
            assert!(b.num as usize == num);
            assert!(b.more == more);
            assert!(b.size_exponent <= 7);
            let s = b.size();
            assert!(s >= 16);
            // largest power of two <= size, but at least 16
            assert!(s <= size || s == 16);
            assert!(size < 16 || (s <= size && size < 2 * s));
        }
        Err(_) => assert!(size == 0 || size >= 4096 || num > 0xFFFF),
    }
}
