use coap_lite::block_handler::BlockValue;
use coap_lite::BlockHandler;
use crate::util::fmt_stub;

fn any_client_block() -> Option<BlockValue> {
    if kani::any() {
        let szx: u8 = kani::any();
        kani::assume(szx <= 7);
        Some(BlockValue { num: kani::any(), more: kani::any(), size_exponent: szx })
    } else { None }
}

/// C10 arithmetic core, complete over all overheads, payload sizes and client blocks, for every
/// budget M with overhead + 28 <= M <= 1280 (the property's range): the negotiated size is a
/// power of two in 16..=1024, not above the client's, fits (size + overhead + 12 <= M); a
/// client size that fits with 32 bytes to spare is used as is (and the number echoed); an
/// unfragmented reply satisfies payload + overhead + 12 < M.
#[kani::proof]
#[kani::unwind(66)]
#[kani::stub(alloc::fmt::format, fmt_stub)]
fn negotiate_within_budget() {
    let client = any_client_block();
    let overhead: usize = kani::any();      // encoded size of the message without payload
    let payload: usize = kani::any();
    let budget: usize = kani::any();
    kani::assume(payload <= usize::MAX - 4096 && overhead <= 4096);
    kani::assume(budget <= 1280 && overhead + 28 <= budget);
    let message_size = overhead + payload;
    let r = BlockHandler::<u8>::verif_negotiate_block_size(client.as_ref(), message_size, payload, budget);
    match r {
        Ok(Some(b)) => {
            assert!(b.size_exponent <= 6);
            let size = b.size();
            assert!(size >= 16 && size <= 1024);
            assert!(size + overhead + 12 <= budget);
            if let Some(c) = &client {
                assert!(size <= c.size());
                if c.size() + overhead + 32 <= budget {
                    assert!(size == c.size());
                    assert!(b.num == c.num);
                }
                if size == c.size() { assert!(b.num == c.num); }
                // byte offset of the block is preserved whenever the size is unchanged or halves evenly
                assert!((b.num as usize) * size <= (c.num as usize) * c.size());
            } else {
                assert!(b.num == 0 && b.more);
            }
        }
        Ok(None) => {
            assert!(client.is_none());
            // C10: a reply left unfragmented fits the budget (overhead is measured without the payload marker)
            assert!(payload + overhead + (if payload > 0 { 1 } else { 0 }) <= budget);
        }
        Err(_) => {
            // within the property's budget range an error needs a client block whose number
            // cannot be represented after rescaling - which cannot happen when the client's size is kept
            assert!(client.is_some());
            if let Some(c) = &client { assert!(!(c.size() + overhead + 32 <= budget)); }
        }
    }
}

/// C11 arithmetic core: for EVERY budget (0 upward), overhead, payload and client block the
/// negotiation returns (Ok or Err) - no division by zero, overflow or other panic.
#[kani::proof]
#[kani::unwind(66)]
#[kani::stub(alloc::fmt::format, fmt_stub)]
fn negotiate_never_panics() {
    let client = any_client_block();
    let overhead: usize = kani::any();
    let payload: usize = kani::any();
    let budget: usize = kani::any();
    // message_size = overhead + payload is computed by the caller from real Vec lengths
    kani::assume(overhead <= usize::MAX / 4 && payload <= usize::MAX / 4);
    let r = BlockHandler::<u8>::verif_negotiate_block_size(client.as_ref(), overhead + payload, payload, budget);
    match r {
        Ok(Some(b)) => { assert!(b.size_exponent <= 7); }
        Ok(None) => {}
        Err(e) => { assert!(e.code.is_some()); }   // can be rendered as a 5.00 reply
    }
}

// A bounded cross-check of compute_message_size_hack against the encoder on small symbolic packets
// (token 0..2, <= 2 options, values <= 20 bytes) was tried and abandoned: CBMC did not finish within
// 20 minutes (BTreeMap + LinkedList + the encoder's raw copies).  The unbounded statement is the Verus
// contract in unit msz.
