extern crate alloc;
use alloc::string::String;
/// `format!` on error paths dominates CBMC cost; error *messages* are not part of any property.
pub fn fmt_stub(_args: core::fmt::Arguments<'_>) -> String { String::new() }

/// minimal big-endian encoding of v (reference written from RFC 7252 section 3.2 "uint")
pub fn ref_uint_be_min(v: u64) -> ([u8; 8], usize) {
    let mut out = [0u8; 8];
    let mut n = 0usize;
    let mut started = false;
    let mut i = 0;
    while i < 8 {
        let b = (v >> (56 - 8 * i)) as u8;
        if b != 0 || started { out[n] = b; n += 1; started = true; }
        i += 1;
    }
    (out, n)
}
