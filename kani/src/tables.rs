use coap_lite::{CoapOption, MessageClass, ResponseType};

#[kani::proof]
fn option_number_roundtrip() {
    let n: u16 = kani::any();
    let o = CoapOption::from(n);
    assert!(u16::from(o) == n);
}

/// C05: a response code is reported as an error exactly when its byte is 4.00 (0x80) or above.
/// Goes through the real From<u8> table and the derived PartialOrd that is_error relies on.
#[kani::proof]
fn is_error_iff_byte_ge_0x80() {
    let n: u8 = kani::any();
    if let MessageClass::Response(t) = MessageClass::from(n) {
        assert!(t.is_error() == (n >= 0x80));
        assert!(n >= 0x40);
    }
    assert!(ResponseType::UnKnown.is_error());
}
