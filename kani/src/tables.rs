use coap_lite::CoapOption;

#[kani::proof]
fn option_number_roundtrip() {
    let n: u16 = kani::any();
    let o = CoapOption::from(n);
    assert!(u16::from(o) == n);
}
