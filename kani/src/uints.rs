use coap_lite::option_value::{OptionValueU16, OptionValueU32, OptionValueU64, OptionValueU8};
use core::convert::TryFrom;
use crate::util::{fmt_stub, ref_uint_be_min};

macro_rules! uint_harnesses {
    ($enc:ident, $dec:ident, $ty:ident, $prim:ty, $w:expr) => {
        /// C06 encode: for EVERY value of the width the encoding is the shortest big-endian
        /// form (empty for 0) and decodes back to the value.  Loops bounded by 8 bytes.
        #[kani::proof]
        #[kani::unwind(10)]
        #[kani::stub(alloc::fmt::format, fmt_stub)]
        fn $enc() {
            let v: $prim = kani::any();
            let bytes: Vec<u8> = $ty(v).into();
            let (r, n) = ref_uint_be_min(v as u64);
            assert!(bytes.len() == n);
            assert!(n <= $w);
            let mut i = 0;
            while i < n { assert!(bytes[i] == r[i]); i += 1; }
            match $ty::try_from(bytes) { Ok(x) => assert!(x.0 == v), Err(_) => assert!(false) }
        }
        /// C06 decode: every byte string of length <= width (leading zeros included) decodes to
        /// its big-endian value; every string of length width+1 ..= width+2 is rejected.
        #[kani::proof]
        #[kani::unwind(12)]
        #[kani::stub(alloc::fmt::format, fmt_stub)]
        fn $dec() {
            let len: usize = kani::any();
            kani::assume(len <= $w + 2);
            let raw: [u8; 10] = kani::any();
            let mut v: Vec<u8> = Vec::with_capacity(10);
            let mut expect: u64 = 0;
            let mut i = 0;
            while i < len { v.push(raw[i]); if len <= $w { expect = (expect << 8) | raw[i] as u64; } i += 1; }
            match $ty::try_from(v) {
                Ok(x) => { assert!(len <= $w); assert!(x.0 as u64 == expect); }
                Err(_) => assert!(len > $w),
            }
        }
    };
}
uint_harnesses!(uint_encode_u8, uint_decode_u8, OptionValueU8, u8, 1);
uint_harnesses!(uint_encode_u16, uint_decode_u16, OptionValueU16, u16, 2);
uint_harnesses!(uint_encode_u32, uint_decode_u32, OptionValueU32, u32, 4);
uint_harnesses!(uint_encode_u64, uint_decode_u64, OptionValueU64, u64, 8);
