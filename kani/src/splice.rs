use coap_lite::block_handler::extending_splice;
use crate::util::fmt_stub;

/// BOUNDED cross-check of the contract that unit blk assumes for `extending_splice` (rule R21):
/// for dst of 0..=2 bytes, a range [a, b) with a <= b <= 5, a replacement of 0..=2 bytes and a reserve
/// limit of 0..=3: refuses exactly when b > len + limit and then leaves dst unchanged; otherwise dst
/// becomes (dst zero-extended to b)[..a] ++ replacement ++ (dst zero-extended to b)[b..].
#[kani::proof]
#[kani::unwind(9)]
#[kani::stub(alloc::fmt::format, fmt_stub)]
fn extending_splice_contract() {
    let len: usize = kani::any();
    kani::assume(len <= 2);
    let d: [u8; 4] = kani::any();
    let mut dst: Vec<u8> = Vec::with_capacity(16);
    let mut i = 0;
    while i < len { dst.push(d[i]); i += 1; }
    let a: usize = kani::any();
    let b: usize = kani::any();
    kani::assume(a <= b && b <= 5);
    let wl: usize = kani::any();
    kani::assume(wl <= 2);
    let w: [u8; 3] = kani::any();
    let mut with: Vec<u8> = Vec::with_capacity(3);
    let mut j = 0;
    while j < wl { with.push(w[j]); j += 1; }
    let max: usize = kani::any();
    kani::assume(max <= 3);
    let r = extending_splice(&mut dst, a..b, with.iter().copied(), max).map(|_splice| ());   // the Splice acts when dropped
    if b > len + max {
        assert!(r.is_err());
        assert!(dst.len() == len);
        let mut k = 0;
        while k < 4 { if k < len { assert!(dst[k] == d[k]); } k += 1; }
    } else {
        assert!(r.is_ok());
        let ext = if b > len { b } else { len };
        assert!(dst.len() == ext - (b - a) + wl);
        let mut k = 0;
        while k < 8 {
            if k < dst.len() {
                let expect = if k < a { if k < len { d[k] } else { 0 } }
                             else if k < a + wl { w[k - a] }
                             else { let src = k - wl + (b - a); if src < len { d[src] } else { 0 } };
                assert!(dst[k] == expect);
            }
            k += 1;
        }
    }
}
