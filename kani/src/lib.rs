//! Kani harnesses over coap-lite (path dependency on /repo).  Contracts are written as
//! assume/assert obligations over fully symbolic inputs.  A harness whose loops are bounded by an
//! operand width (with unwinding assertions on) is a complete proof over its input domain; the
//! others are bounded stand-ins and are labelled so in checks.py.
#![allow(dead_code, unused_imports)]
#[cfg(kani)]
mod util;
#[cfg(kani)]
mod tables;
#[cfg(kani)]
mod uints;
#[cfg(kani)]
mod block;
#[cfg(kani)]
mod negotiate;
// mod splice: bounded cross-check of the extending_splice contract (R21) - CBMC does not get past SSA conversion /
// propositional reduction within 15 min even for dst <= 2 bytes (Splice/Drain drop glue); kept in src/splice.rs as a record
// mod unquote: bounded harness for Unquote::to_cow vs the iterator (C17) - runs out of memory in CBMC even
// for strings of <= 4 ASCII characters (measured: 415-513 s, then OOM); kept in src/unquote.rs as a record, not compiled
