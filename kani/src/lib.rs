//! Kani harnesses over the public API of coap-lite (path dependency on /repo).
#![allow(dead_code)]
#[cfg(kani)]
mod tables;
