"""Replay files: one JSON per reported violation.

A replay file names the failed obligation, carries the verifier's output and, when a concrete
failing input could be obtained (Kani concrete playback, or the native boundary search of
replay/ for Verus obligations), the input together with the result of running it against the
real crate.  `./check <id> --replay <file>` re-executes it.
"""
import json
import os
import subprocess

ROOT = os.path.dirname(os.path.dirname(os.path.abspath(__file__)))
NATIVE = os.path.join(ROOT, 'replay')


def native_search(pid, ob, repo):
    """Ask the native replay crate (path dependency on the repo under test) for an input that
    violates the property's executable oracle.  Returns dict or None."""
    if not os.path.exists(os.path.join(NATIVE, 'Cargo.toml')):
        return None
    try:
        from . import native
        return native.search(pid, ob, repo)
    except Exception as e:  # the search is best effort; it never decides a verdict
        return {'error': 'native search failed: %r' % (e,)}


def make(pid, ob, repo, path):
    rep = {
        'property': pid,
        'obligation': ob['obligation'],
        'unit': ob.get('unit'),
        'function': ob.get('fn'),
        'kind': ob.get('kind'),
        'verifier_message': ob.get('message'),
        'source_line': ob.get('text'),
        'verifier_output': ob.get('rendered', ''),
        'notes': ob.get('notes', []),
        'repo': repo,
        'failing_input_found': False,
    }
    if ob.get('concrete_vals'):
        rep['kani_harness'] = ob.get('harness')
        rep['kani_concrete_vals'] = ob['concrete_vals']
        rep['input_source'] = 'kani concrete playback (values of kani::any() in call order)'
        nat_k = ob.get('native') or {}
        rep['kani_native_playback'] = nat_k
        # the counterexample counts as a failing input once it has failed natively against the real code
        rep['failing_input_found'] = bool(nat_k.get('reproduced'))
    nat = native_search(pid, ob, repo)
    if nat:
        rep['native'] = nat
        if nat.get('found'):
            rep['failing_input_found'] = True
    with open(path, 'w') as f:
        json.dump(rep, f, indent=1, default=str)
    return rep


def rerun(path, repo):
    rep = json.load(open(path))
    print('replay of %s: obligation %s' % (rep['property'], rep['obligation']))
    if rep.get('kani_native_playback', {}).get('test_source'):
        from . import kani as kani_mod
        crate = kani_mod.prepare(repo)
        nk = rep['kani_native_playback']
        r = kani_mod.native_playback(rep['kani_harness'], crate, test_source={'name': nk['test_name'], 'source': nk['test_source'], 'file': nk['test_file']})
        print(r['output_tail'][-1500:])
        print('native playback of the Kani counterexample on %s: %s' % (repo, 'violation reproduced' if r['reproduced'] else 'not reproduced'))
        return 1 if r['reproduced'] else 0
    if rep.get('native', {}).get('found'):
        from . import native
        ok = native.rerun(rep, repo)
        print('native replay on %s: %s' % (repo, 'property violated (reproduced)' if ok else 'not reproduced'))
        return 1 if ok else 0
    # no concrete input: re-run the check and see whether the obligation still fails
    p = subprocess.run([os.path.join(ROOT, 'check'), rep['property'], '--repo', repo], capture_output=True, text=True)
    still = rep['obligation'].replace(' ', '') in p.stdout.replace(' ', '')
    print(p.stdout[-2000:])
    print('obligation %s' % ('still fails' if still else 'no longer fails'))
    return 1 if still else 0
