"""Running Verus on a generated unit and classifying the outcome."""
import json
import os
import re
import subprocess
import time

VERUS = os.environ.get('VERIF_VERUS', 'verus')


class VerusResult:
    def __init__(self):
        self.status = 'undecided'   # 'verified' | 'failed' | 'undecided'
        self.reason = ''
        self.verified = 0
        self.errors = 0
        self.fn_results = []        # [{function, success, time_ms, rlimit}]
        self.diags = []             # [{message, line, text, kind, notes}]
        self.limits = []
        self.smt_ms = 0
        self.total_ms = 0
        self.wall_s = 0.0
        self.cmd = ''
        self.raw_stderr = ''
        self.path = ''


UNDECIDED_PATTERNS = [
    r'resource limit', r'rlimit', r'timed? ?out', r'not supported', r'unsupported', r'not yet supported',
    r'cannot find', r'mismatched types', r'unresolved', r'expected .* found', r'The verifier does not',
    r'could not', r'is not supported', r'no method named', r'trait bound',
]


def classify(msg):
    m = msg.lower()
    if 'postcondition not satisfied' in m:
        return 'postcondition'
    if 'precondition not satisfied' in m:
        return 'precondition'
    if 'invariant not satisfied' in m:
        return 'invariant'
    if 'assertion failed' in m:
        return 'assertion'
    if 'arithmetic underflow/overflow' in m or 'overflow' in m:
        return 'overflow'
    if 'decreases' in m or 'termination' in m:
        return 'termination'
    if 'unreachable' in m:
        return 'unreachable'
    if 'might be out of range' in m or 'truncat' in m:
        return 'truncation'
    return 'other'


def run(path, rlimit=None, extra=(), timeout=900, threads=None, multiple_errors=20):
    r = VerusResult()
    r.path = path
    cmd = [VERUS, path, '--output-json', '--time', '--multiple-errors', str(multiple_errors), '--error-format=json']
    if rlimit:
        cmd += ['--rlimit', str(rlimit)]
    if threads:
        cmd += ['--num-threads', str(threads)]
    cmd += list(extra)
    r.cmd = ' '.join(cmd)
    t0 = time.time()
    try:
        p = subprocess.run(cmd, capture_output=True, text=True, timeout=timeout, cwd=os.path.dirname(path))
    except subprocess.TimeoutExpired:
        r.wall_s = time.time() - t0
        r.reason = 'verus timeout after %ds' % timeout
        return r
    r.wall_s = time.time() - t0
    r.raw_stderr = p.stderr
    out = None
    try:
        out = json.loads(p.stdout)
    except Exception:
        pass
    hard_errors = []
    for line in p.stderr.splitlines():
        line = line.strip()
        if not line.startswith('{'):
            continue
        try:
            d = json.loads(line)
        except Exception:
            continue
        lvl = d.get('level')
        if lvl not in ('error', 'error: internal compiler error'):
            continue
        msg = d.get('message', '')
        if msg.startswith('aborting due to'):
            continue
        base = os.path.basename(path)
        mine = [s for s in d.get('spans', []) if os.path.basename(s.get('file_name', '')) == base]
        prim = [s for s in mine if s.get('is_primary')] or mine
        line_no = prim[0]['line_start'] if prim else 0
        text = ' '.join(t['text'].strip() for t in prim[0]['text'][:3]) if prim and prim[0].get('text') else ''
        ext = [s for s in d.get('spans', []) if s.get('is_primary') and os.path.basename(s.get('file_name', '')) != base]
        if ext:
            msg = msg + ' (contract declared in %s:%d)' % (ext[0].get('file_name'), ext[0].get('line_start'))
        notes = []
        for s in d.get('spans', []):
            if not s.get('is_primary'):
                notes.append({'line': s['line_start'], 'label': s.get('label'), 'text': (s['text'][0]['text'].strip() if s.get('text') else '')})
        for c in d.get('children', []):
            notes.append({'line': 0, 'label': c.get('message'), 'text': ''})
        kind = classify(msg)
        r.diags.append({'message': msg, 'line': line_no, 'text': text, 'kind': kind, 'notes': notes,
                        'rendered': d.get('rendered', '')})
    if out is None:
        r.reason = 'no JSON output from verus (exit %d): %s' % (p.returncode, p.stderr[-2000:])
        return r
    vr = out.get('verification-results', {})
    r.verified = vr.get('verified', 0)
    r.errors = vr.get('errors', 0)
    tm = out.get('times-ms', {})
    r.total_ms = tm.get('total', 0)
    smt = tm.get('smt', {})
    r.smt_ms = smt.get('smt-run', 0)
    for m in smt.get('smt-run-module-times', []):
        for f in m.get('function-breakdown', []):
            r.fn_results.append({'function': f.get('function'), 'success': f.get('success'),
                                 'time_ms': f.get('time'), 'rlimit': f.get('rlimit'), 'mode': f.get('mode:')})
    if vr.get('encountered-vir-error') or (vr.get('encountered-error') and r.errors == 0):
        r.reason = 'front-end error (unsupported construct / type error): ' + '; '.join(d['message'] for d in r.diags[:5])
        r.status = 'undecided'
        return r
    if vr.get('success') and r.errors == 0:
        r.status = 'verified'
        return r
    # verification failures.  Resource-limit / tool-limit diagnostics are "undecided"; they never
    # count as failed obligations.  Definite failures (a counterexample exists for the solver)
    # decide the run.
    definite = []
    limits = []
    for d in r.diags:
        ml = d['message'].lower()
        if d['kind'] == 'other' and any(re.search(pat, ml) for pat in UNDECIDED_PATTERNS):
            limits.append(d)
        elif 'resource limit' in ml or 'rlimit' in ml:
            limits.append(d)
        else:
            definite.append(d)
    r.limits = limits
    r.diags = definite
    if definite:
        r.status = 'failed'
        return r
    r.reason = 'tool limit: ' + '; '.join(d['message'] for d in limits[:3]) if limits else 'verus reported errors without diagnostics'
    r.status = 'undecided'
    return r
