"""Rust source scanning: comment/string aware brace matching and item lookup.

Everything here is purely textual.  It is used to *copy* items (structs, enums,
impl blocks, single fns inside impl blocks) out of /repo/src byte for byte, so
that the text handed to the verifier is the text that is compiled.  Any lookup
that does not find exactly what it expects raises ExtractError, which the
runner turns into exit status 2 (undecided) - never into a pass or an alarm.
"""
import re


class ExtractError(Exception):
    pass


def code_mask(src):
    """mask[i] is True when src[i] is code (not inside a comment, string or
    char literal)."""
    n = len(src)
    mask = [True] * n
    i = 0
    while i < n:
        c = src[i]
        if c == '/' and i + 1 < n and src[i + 1] == '/':
            j = src.find('\n', i)
            if j < 0:
                j = n
            for k in range(i, j):
                mask[k] = False
            i = j
        elif c == '/' and i + 1 < n and src[i + 1] == '*':
            depth = 1
            j = i + 2
            while j < n and depth > 0:
                if src.startswith('/*', j):
                    depth += 1
                    j += 2
                elif src.startswith('*/', j):
                    depth -= 1
                    j += 2
                else:
                    j += 1
            for k in range(i, j):
                mask[k] = False
            i = j
        elif c == '"' or (c == 'r' and re.match(r'r#*"', src[i:i + 8]) and (i == 0 or not (src[i - 1].isalnum() or src[i - 1] == '_'))) \
                or (c == 'b' and i + 1 < n and src[i + 1] == '"' and (i == 0 or not (src[i - 1].isalnum() or src[i - 1] == '_'))):
            if c == 'b':
                start = i
                i += 1
                c = '"'
            else:
                start = i
            if c == 'r':
                m = re.match(r'r(#*)"', src[i:])
                hashes = m.group(1)
                close = '"' + hashes
                j = src.find(close, i + len(m.group(0)))
                if j < 0:
                    raise ExtractError('unterminated raw string')
                j += len(close)
            else:
                j = i + 1
                while j < n and src[j] != '"':
                    if src[j] == '\\':
                        j += 1
                    j += 1
                j += 1
            for k in range(start, min(j, n)):
                mask[k] = False
            i = j
        elif c == "'":
            # char literal or lifetime
            if i + 1 < n and src[i + 1] == '\\':
                j = i + 2
                while j < n and src[j] != "'":
                    j += 1
                j += 1
                for k in range(i, min(j, n)):
                    mask[k] = False
                i = j
            elif i + 2 < n and src[i + 2] == "'":
                for k in range(i, i + 3):
                    mask[k] = False
                i += 3
            else:
                i += 1  # lifetime
        else:
            i += 1
    return mask


class Src:
    def __init__(self, path, text=None):
        self.path = path
        self.text = text if text is not None else open(path, encoding='utf-8').read()
        self.mask = code_mask(self.text)
        # code-only view: non-code chars replaced by spaces (newlines kept)
        self.code = ''.join(ch if (m or ch == '\n') else ' ' for ch, m in zip(self.text, self.mask))

    def line_of(self, pos):
        return self.text.count('\n', 0, pos) + 1

    def match_close(self, open_pos):
        """index of the bracket closing the one at open_pos (in code view)."""
        pairs = {'{': '}', '(': ')', '[': ']'}
        o = self.code[open_pos]
        c = pairs[o]
        depth = 0
        for i in range(open_pos, len(self.code)):
            ch = self.code[i]
            if ch == o:
                depth += 1
            elif ch == c:
                depth -= 1
                if depth == 0:
                    return i
        raise ExtractError('%s: unbalanced %s at line %d' % (self.path, o, self.line_of(open_pos)))

    def body_open(self, start):
        """first '{' or ';' at paren/bracket depth 0 at or after start."""
        depth = 0
        i = start
        code = self.code
        while i < len(code):
            ch = code[i]
            if ch in '([':
                depth += 1
            elif ch in ')]':
                depth -= 1
            elif depth == 0 and ch in '{;':
                return i
            i += 1
        raise ExtractError('%s: no body after line %d' % (self.path, self.line_of(start)))

    def find_header(self, header_re, lo=0, hi=None, unique=True):
        """position of the unique match of header_re (a regex on the code
        view, whitespace-insensitive) between lo and hi."""
        hi = len(self.code) if hi is None else hi
        rx = re.compile(header_re)
        ms = [m for m in rx.finditer(self.code, lo, hi)]
        if not ms:
            raise ExtractError('%s: item not found: %s' % (self.path, header_re))
        if unique and len(ms) > 1:
            raise ExtractError('%s: item ambiguous (%d): %s' % (self.path, len(ms), header_re))
        return ms[0].start()

    def item_span(self, header_re, lo=0, hi=None, with_attrs=True):
        """(start, end) of the item whose header matches; start includes the
        attribute and doc-comment lines directly above it."""
        pos = self.find_header(header_re, lo, hi)
        bo = self.body_open(pos)
        if self.code[bo] == '{':
            end = self.match_close(bo) + 1
        else:
            end = bo + 1
        # line start
        start = self.text.rfind('\n', 0, pos) + 1
        if with_attrs:
            while start > 0:
                prev_start = self.text.rfind('\n', 0, start - 1) + 1
                line = self.text[prev_start:start - 1].strip()
                if line.startswith('#[') or line.startswith('///') or line.startswith('//'):
                    start = prev_start
                else:
                    break
        return start, end


def header_regex(header):
    """Turn a human header like 'impl From<u16> for CoapOption' into a
    whitespace-tolerant regex anchored on word boundaries."""
    toks = re.findall(r"[A-Za-z0-9_]+|'[A-Za-z_]+|\S", header.strip())
    out = []
    for a, b in zip(toks, toks[1:] + ['']):
        out.append(re.escape(a))
        if b:
            wa = re.match(r"['A-Za-z0-9_]", a[-1]) is not None
            wb = re.match(r"['A-Za-z0-9_]", b[0]) is not None
            out.append(r'\s+' if (wa and wb) else r'\s*')
    return r'(?<![A-Za-z0-9_])' + ''.join(out) + r'(?![A-Za-z0-9_])'
