"""Building a Verus unit from /repo sources.

A unit = spec prelude (hand written, /verif/spec) + items copied verbatim from
/repo/src + a fixed list of anchored textual rules (DESIGN.md 2.2) + contract
annotations spliced at function headers, loop headers and anchored statements.

Every lookup/rule has an expected match count; a mismatch raises ExtractError
(exit 2 = undecided).  The generated file records, for each function, the
line range it occupies, so that verifier diagnostics can be mapped back to a
function of /repo (and from there to the properties that depend on it).
"""
import os
import re

from .rustsrc import Src, ExtractError, header_regex

SPEC_DIR = os.path.join(os.path.dirname(os.path.dirname(os.path.abspath(__file__))), 'spec')


class Unit:
    def __init__(self, name, repo):
        os.environ['VERIF_REPO_UNDER_TEST'] = repo   # spec generators that follow the code where a property leaves a choice
        self.name = name
        self.repo = repo
        self._srcs = {}
        self.chunks = []          # list of (kind, origin, text)
        self.rule_hits = []       # (rule, where, count)
        self.contracted = []      # fn refs that received a contract
        self.fn_props = {}        # fnref-string -> [property ids]
        self.default_props = []
        self.text = None
        self.dropped = []         # description of what extraction dropped
        self.prelude_files = []
        self.no_vacuity = set()
        self.expected_trusted = None

    # ---------------------------------------------------------------- sources
    def src(self, rel):
        if rel not in self._srcs:
            p = os.path.join(self.repo, 'src', rel)
            if not os.path.exists(p):
                raise ExtractError('missing source file ' + p)
            self._srcs[rel] = Src(p)
        return self._srcs[rel]

    def prelude(self, *files):
        for f in files:
            p = os.path.join(SPEC_DIR, f)
            self.prelude_files.append(f)
            self.chunks.append(('spec', 'spec/' + f, open(p, encoding='utf-8').read()))

    def raw(self, text, origin='inline'):
        self.chunks.append(('spec', origin, text))

    def item(self, rel, header):
        s = self.src(rel)
        a, b = s.item_span(header_regex(header))
        origin = '%s:%d-%d' % (rel, s.line_of(a), s.line_of(b - 1))
        self.chunks.append(('code', origin, s.text[a:b]))

    def consts(self, rel):
        """Copy every module-level `const NAME: T = …;` of the file (names are not anchors: a
        renamed or added constant is still extracted)."""
        s = self.src(rel)
        n = 0
        for m in re.finditer(r'(?m)^(?:pub(?:\([a-z]+\))?\s+)?const\s+[A-Z][A-Z0-9_]*\s*:', s.code):
            a, b = s.item_span(re.escape(m.group(0)), lo=m.start(), hi=None)
            origin = '%s:%d-%d' % (rel, s.line_of(a), s.line_of(b - 1))
            text = s.text[a:b]
            cm = re.search(r'const\s+([A-Z][A-Z0-9_]*)\s*:\s*([^=]+?)\s*=\s*(.*);\s*$', text, re.S)
            if cm and '(' in cm.group(3):
                # initialiser calls a function: an exec-only constant whose value the verifier does not know
                text = text[:cm.start()] + 'exec const %s: %s = %s;' % (cm.group(1), cm.group(2), cm.group(3))
                self.rule_hits.append(('R40:exec-const:' + cm.group(1), 1))
            self.chunks.append(('code', origin, text))
            n += 1
        if n == 0:
            raise ExtractError('%s: no module-level const items' % rel)

    def items(self, rel, *headers):
        for h in headers:
            self.item(rel, h)

    def impl_fns(self, rel, impl_header, fn_names, extra_members=()):
        """Copy `impl_header { ... }` keeping only the listed fns (verbatim,
        with their attributes) and the members whose header is listed in
        extra_members (associated consts / types)."""
        s = self.src(rel)
        # several impl blocks may share the header (e.g. a cfg-gated one): take the one that
        # contains the requested functions
        cands = []
        for hm in re.finditer(header_regex(impl_header) + r'\s*(?:where[^{]*)?\{', s.code):
            cbo = s.body_open(hm.start())
            cbc = s.match_close(cbo)
            if all(re.search(r'(?<![A-Za-z0-9_])fn\s+' + re.escape(fn) + r'(?![A-Za-z0-9_])', s.code[cbo:cbc]) for fn in fn_names):
                cands.append((hm.start(), cbo, cbc))
        if len(cands) != 1:
            raise ExtractError('%s: %d impl blocks `%s` contain %s' % (rel, len(cands), impl_header, list(fn_names)))
        pos, bo, bc_ = cands[0]
        a = s.text.rfind('\n', 0, pos) + 1
        while a > 0:
            prev = s.text.rfind('\n', 0, a - 1) + 1
            line = s.text[prev:a - 1].strip()
            if line.startswith('#[') or line.startswith('//'):
                a = prev
            else:
                break
        b = bc_ + 1
        head = s.text[a:bo + 1]
        parts = [head]
        origin_lines = []
        for h in list(extra_members):
            # every member whose header matches (e.g. the two cfg-gated MAX_SIZE constants)
            pos = bo + 1
            found = 0
            while True:
                ms = re.compile(header_regex(h)).search(s.code, pos, b - 1)
                if not ms:
                    break
                x, y = s.item_span(header_regex(h), ms.start(), b - 1) if False else self._member_span(s, ms.start())
                parts.append(s.text[x:y])
                origin_lines.append('%d-%d' % (s.line_of(x), s.line_of(y - 1)))
                pos = y
                found += 1
            if not found:
                raise ExtractError('%s: member not found: %s' % (rel, h))
        for fn in fn_names:
            x, y = s.item_span(r'(?<![A-Za-z0-9_])fn\s+' + re.escape(fn) + r'(?![A-Za-z0-9_])', bo + 1, b - 1)
            parts.append(s.text[x:y])
            origin_lines.append('%s@%d-%d' % (fn, s.line_of(x), s.line_of(y - 1)))
        parts.append('}')
        self.chunks.append(('code', '%s:[%s] %s' % (rel, impl_header, ','.join(origin_lines)), '\n'.join(parts)))

    @staticmethod
    def _member_span(s, pos):
        bo = s.body_open(pos)
        end = (s.match_close(bo) + 1) if s.code[bo] == '{' else bo + 1
        start = s.text.rfind('\n', 0, pos) + 1
        while start > 0:
            prev_start = s.text.rfind('\n', 0, start - 1) + 1
            line = s.text[prev_start:start - 1].strip()
            if line.startswith('#[') or line.startswith('//'):
                start = prev_start
            else:
                break
        return start, end

    def expand_macro(self, rel, macro_name, only=None):
        """R26: textual expansion of a single-arm macro_rules! macro of /repo: each invocation
        `name!(a, b, ...)` at item level is replaced by the macro body with $params substituted
        (what rustc's macro expander does for ident/ty/expr fragments)."""
        s = self.src(rel)
        a, b = s.item_span(r'macro_rules!\s+' + re.escape(macro_name) + r'(?![A-Za-z0-9_])')
        text = s.text[a:b]
        m = re.search(r'\(\s*((?:\$\w+:\w+\s*,?\s*)+)\)\s*=>\s*\{', text)
        if not m:
            raise ExtractError('cannot parse macro_rules! ' + macro_name)
        params = re.findall(r'\$(\w+):\w+', m.group(1))
        body_open = a + m.end() - 1
        body_close = s.match_close(body_open)
        body = s.text[body_open + 1:body_close]
        count = 0
        for inv in re.finditer(r'(?m)^' + re.escape(macro_name) + r'!\(([^;]*)\);', s.code):
            args = [x.strip() for x in inv.group(1).split(',')]
            if len(args) != len(params):
                raise ExtractError('macro %s: arity mismatch' % macro_name)
            if only and args[0] not in only:
                continue
            exp = body
            for p_, a_ in zip(params, args):
                exp = re.sub(r'\$' + p_ + r'(?![A-Za-z0-9_])', a_, exp)
            self.chunks.append(('code', '%s:%s!(%s) line %d' % (rel, macro_name, ', '.join(args), s.line_of(inv.start())), exp))
            count += 1
        if count == 0:
            raise ExtractError('macro %s: no invocation found' % macro_name)
        self.rule_hits.append(('R26:expand-' + macro_name, count))

    # --------------------------------------------------------------- assemble
    def assemble(self):
        out = []
        for kind, origin, text in self.chunks:
            out.append('// <<< %s %s' % (kind, origin))
            out.append(text.rstrip('\n'))
            out.append('// >>>')
        self.text = '\n'.join(out) + '\n'

    def _code_regions(self):
        """list of (start,end) of repo-derived regions in self.text"""
        regs = []
        for m in re.finditer(r'// <<< code [^\n]*\n', self.text):
            e = self.text.find('// >>>', m.end())
            regs.append((m.end(), e))
        return regs

    # ------------------------------------------------------------------ rules
    def rule(self, name, pattern, repl, expect, scope='code', flags=re.S):
        """Apply a textual rule to the repo-derived regions (scope='code') or
        to the whole text.  expect = exact count or (min, max)."""
        rx = re.compile(pattern, flags)
        count = 0
        if scope == 'code':
            res = []
            last = 0
            for a, b in self._code_regions():
                res.append(self.text[last:a])
                seg, n = rx.subn(repl, self.text[a:b])
                count += n
                res.append(seg)
                last = b
            res.append(self.text[last:])
            self.text = ''.join(res)
        else:
            self.text, count = rx.subn(repl, self.text)
        lo, hi = (expect, expect) if isinstance(expect, int) else expect
        if not (lo <= count <= hi):
            raise ExtractError('unit %s: rule %s matched %d times, expected %s' % (self.name, name, count, expect))
        self.rule_hits.append((name, count))
        return count

    def pub_fields(self, struct_name, expect_min=0):
        """R8: make every field of the named struct `pub` (visibility only; specs must be able to
        mention private fields)."""
        m = re.search(r'struct ' + re.escape(struct_name) + r'\b[^{;]*\{', self.text)
        if not m:
            raise ExtractError('unit %s: struct %s not found for R8' % (self.name, struct_name))
        s = Src('<unit>', self.text)
        bo = m.end() - 1
        bc = s.match_close(bo)
        body = self.text[bo + 1:bc]
        new, n1 = re.subn(r'(?m)^(\s+)(?!pub\b)(\w+\s*:)', r'\1pub \2', body)
        new, n2 = re.subn(r'pub\(crate\)\s+', 'pub ', new)
        if n1 + n2 < expect_min:
            raise ExtractError('unit %s: R8 on %s changed %d fields' % (self.name, struct_name, n1 + n2))
        self.text = self.text[:bo + 1] + new + self.text[bc:]
        self.rule_hits.append(('R8:pub-fields-' + struct_name, n1 + n2))

    def expand_derive_default(self, struct_name):
        """R27: `#[derive(.., Default, ..)]` on a struct with named fields is replaced by the impl
        rustc's derive generates (every field Default::default()), so that it can carry a contract."""
        m = re.search(r'#\[derive\(([^)]*)\)\]\s*pub struct ' + re.escape(struct_name) + r'\s*\{([^}]*)\}', self.text)
        if not m or 'Default' not in m.group(1):
            raise ExtractError('unit %s: derive(Default) on %s not found' % (self.name, struct_name))
        derives = [d.strip() for d in m.group(1).split(',') if d.strip() and d.strip() != 'Default']
        fields = re.findall(r'(?m)^\s*(?:pub(?:\([a-z]+\))?\s+)?(\w+)\s*:', re.sub(r'//[^\n]*', '', m.group(2)))
        impl = '\nimpl Default for %s {\n    fn default() -> %s {\n        %s { %s }\n    }\n}\n' % (
            struct_name, struct_name, struct_name, ', '.join('%s: Default::default()' % f for f in fields))
        new = self.text[m.start():m.end()].replace('#[derive(%s)]' % m.group(1), '#[derive(%s)]' % ', '.join(derives), 1) + impl
        self.text = self.text[:m.start()] + new + self.text[m.end():]
        self.rule_hits.append(('R27:derive-default-' + struct_name, 1))

    # ------------------------------------------------------------ fn lookup
    def _fn_span(self, fnref):
        """fnref = 'fn_name' (free fn, unique) or ('impl header', 'fn_name').
        Returns (Src over current text, sig_start, body_open, body_close)."""
        s = Src('<unit %s>' % self.name, self.text)
        lo, hi = 0, len(self.text)
        if isinstance(fnref, tuple):
            ih, fn = fnref
            # several impl blocks may share a header: take the one that contains the function
            cands = []
            for hm in re.finditer(header_regex(ih) + r'\s*(?:where[^{]*)?\{', s.code):
                cbo = s.body_open(hm.start())
                cbc = s.match_close(cbo)
                if re.search(r'(?<![A-Za-z0-9_])fn\s+' + re.escape(fn) + r'(?![A-Za-z0-9_])', s.code[cbo:cbc]):
                    cands.append((cbo, cbc))
            if len(cands) != 1:
                raise ExtractError('<unit %s>: %d impl blocks `%s` contain fn %s' % (self.name, len(cands), ih, fn))
            bo, hi = cands[0]
            lo = bo + 1
        else:
            fn = fnref
        p = s.find_header(r'(?<![A-Za-z0-9_])fn\s+' + re.escape(fn) + r'(?![A-Za-z0-9_])', lo, hi)
        bo = s.body_open(p)
        if s.code[bo] != '{':
            raise ExtractError('fn without body: %s' % (fnref,))
        return s, p, bo, s.match_close(bo)

    @staticmethod
    def fnkey(fnref):
        return '%s::%s' % fnref if isinstance(fnref, tuple) else fnref

    def contract(self, fnref, spec, ret='r', props=None, vacuity=True):
        """Name the return value and splice requires/ensures before the body."""
        s, p, bo, bc = self._fn_span(fnref)
        sig = self.text[p:bo]
        code_sig = s.code[p:bo]
        # parameter list
        po = code_sig.find('(')
        pc = s.match_close(p + po) - p
        rest = sig[pc + 1:]
        code_rest = code_sig[pc + 1:]
        m = re.search(r'->', code_rest)
        if m and ret:
            w = re.search(r'(?<![A-Za-z0-9_])where(?![A-Za-z0-9_])', code_rest)
            tend = w.start() if w else len(rest)
            ty = rest[m.end():tend].strip()
            rest = rest[:m.start()] + '-> (%s: %s)' % (ret, ty) + ('\n    ' + rest[tend:] if w else '')
        new_sig = sig[:pc + 1] + rest.rstrip() + '\n' + spec.rstrip() + '\n'
        self.text = self.text[:p] + new_sig + self.text[bo:]
        self.contracted.append(self.fnkey(fnref))
        if props is not None:
            self.fn_props[self.fnkey(fnref)] = list(props)
        if not vacuity:
            self.no_vacuity.add(self.fnkey(fnref))

    def props(self, fnref, props):
        self.fn_props[self.fnkey(fnref)] = list(props)

    def body_start(self, fnref, text):
        s, p, bo, bc = self._fn_span(fnref)
        self.text = self.text[:bo + 1] + '\n' + text + '\n' + self.text[bo + 1:]

    def stub_fn(self, fnref):
        self.no_vacuity.add(self.fnkey(fnref))
        self._stub_fn(fnref)

    def _stub_fn(self, fnref):
        """Keep the real signature of a function of /repo but drop its body (external_body): the
        function is then represented by the contract given to it, which must be justified elsewhere
        (another unit or a Kani harness) - recorded in rule_hits and in the trusted base."""
        s, p, bo, bc = self._fn_span(fnref)
        ls = self.text.rfind('\n', 0, p) + 1
        indent = self.text[ls:p]
        # the attribute goes before visibility qualifiers on the same line
        self.text = self.text[:bo] + '{ unimplemented!() }' + self.text[bc + 1:]
        line_start = ls
        self.text = self.text[:line_start] + re.match(r'\s*', indent).group(0) + '#[verifier::external_body]\n' + self.text[line_start:]
        self.rule_hits.append(('stub:' + self.fnkey(fnref), 1))

    def body_end(self, fnref, text):
        s, p, bo, bc = self._fn_span(fnref)
        self.text = self.text[:bc] + text + '\n    ' + self.text[bc:]

    def probe(self, fnref):
        """register a (lemma) function for the vacuity probe without giving it a contract"""
        self.contracted.append(self.fnkey(fnref))

    def loop(self, fnref, ordinal, spec, iter_name=None):
        """Splice invariants into the ordinal-th loop header (0-based, in
        textual order) of the function."""
        s, p, bo, bc = self._fn_span(fnref)
        ms = list(re.finditer(r'(?<![A-Za-z0-9_])(while|for|loop)(?![A-Za-z0-9_])', s.code[bo:bc]))
        # `for` inside `impl ... for` cannot occur inside a fn body; closures `for<'a>` not used
        if ordinal >= len(ms):
            raise ExtractError('unit %s: fn %s has %d loops, wanted #%d' % (self.name, fnref, len(ms), ordinal))
        m = ms[ordinal]
        lp = bo + m.start()
        lbo = s.body_open(lp)
        if s.code[lbo] != '{':
            raise ExtractError('loop without body')
        header = self.text[lp:lbo]
        if iter_name:
            if m.group(1) != 'for':
                raise ExtractError('iter_name on non-for loop')
            hm = re.match(r'for\s+(.*?)\s+in\s+', header, re.S)
            if not hm:
                raise ExtractError('cannot parse for header: ' + header)
            header = header[:hm.end()] + iter_name + ': ' + header[hm.end():]
        self.text = self.text[:lp] + header.rstrip() + '\n' + spec.rstrip() + '\n' + self.text[lbo:]

    def loop_body_start(self, fnref, ordinal, text):
        """Insert text as first statement of the body of the ordinal-th loop (textual order)."""
        s, p, bo, bc = self._fn_span(fnref)
        ms = list(re.finditer(r'(?<![A-Za-z0-9_])(while|for|loop)(?![A-Za-z0-9_])', s.code[bo:bc]))
        if ordinal >= len(ms):
            raise ExtractError('unit %s: fn %s has %d loops, wanted #%d' % (self.name, fnref, len(ms), ordinal))
        lbo = s.body_open(bo + ms[ordinal].start())
        if s.code[lbo] != '{':
            raise ExtractError('loop without body')
        self.text = self.text[:lbo + 1] + '\n' + text + '\n' + self.text[lbo + 1:]

    def _anchor(self, fnref, anchor, nth=0, count=1):
        s, p, bo, bc = self._fn_span(fnref)
        ms = list(re.finditer(anchor, self.text[bo:bc], re.S))
        if len(ms) != count:
            raise ExtractError('unit %s: anchor %r in %s matched %d times, expected %d' % (self.name, anchor, fnref, len(ms), count))
        m = ms[nth]
        return bo + m.start(), bo + m.end(), m

    def after(self, fnref, anchor, text, nth=0, count=1, expand=False):
        """Insert text after the anchored statement.  With expand=True, \\g<n> in text is
        replaced by the anchor's capture groups, so that a proof hint can mention constants of
        the code (masks, thresholds) without fixing them: a changed constant then fails the
        hint's obligation instead of losing the anchor."""
        a, b, m = self._anchor(fnref, anchor, nth, count)
        if expand:
            text = m.expand(text)
        self.text = self.text[:b] + '\n' + text + '\n' + self.text[b:]

    def before(self, fnref, anchor, text, nth=0, count=1, expand=False):
        a, b, m = self._anchor(fnref, anchor, nth, count)
        if expand:
            text = m.expand(text)
        # go to line start
        ls = self.text.rfind('\n', 0, a) + 1
        self.text = self.text[:ls] + text + '\n' + self.text[ls:]

    def closure(self, fnref, params_regex, typed_params, ret, spec, nth=0, count=1):
        """R18: give a closure literal a contract.  Only the header is rewritten
        (`|x|` -> `|x: T| -> (r: R) ensures ...`), the body is kept verbatim and, when it is a bare
        expression, wrapped in braces (Verus requires a block after a closure contract)."""
        s, p, bo, bc = self._fn_span(fnref)
        ms = list(re.finditer(params_regex, s.code[bo:bc]))
        if len(ms) != count:
            raise ExtractError('unit %s: closure %r in %s matched %d times, expected %d' % (self.name, params_regex, fnref, len(ms), count))
        m = ms[nth]
        a, b = bo + m.start(), bo + m.end()
        # body start
        i = b
        while self.text[i].isspace():
            i += 1
        if s.code[i] == '{':
            j = s.match_close(i) + 1
            body = self.text[i:j]
        else:
            depth = 0
            j = i
            while j < bc:
                ch = s.code[j]
                if ch in '([{':
                    depth += 1
                elif ch in ')]}':
                    if depth == 0:
                        break
                    depth -= 1
                elif ch == ',' and depth == 0:
                    break
                j += 1
            body = '{ ' + self.text[i:j].rstrip() + ' }'
        header = '|%s| -> (%s) %s ' % (typed_params, ret, spec)
        self.text = self.text[:a] + header + body + self.text[j:]
        self.rule_hits.append(('R18:closure@' + self.fnkey(fnref), 1))

    def after_stmt(self, fnref, start_regex, text, nth=0, count=1):
        """Insert text after the statement that BEGINS at the match of start_regex (the end is the
        next `;` at the same nesting depth), whatever the rest of the statement looks like."""
        s, p, bo, bc = self._fn_span(fnref)
        ms = list(re.finditer(start_regex, s.code[bo:bc], re.S))
        if len(ms) != count:
            raise ExtractError('unit %s: statement %r in %s matched %d times, expected %d' % (self.name, start_regex, fnref, len(ms), count))
        i = bo + ms[nth].start()
        depth = 0
        while i < bc:
            ch = s.code[i]
            if ch in '([{':
                depth += 1
            elif ch in ')]}':
                depth -= 1
            elif ch == ';' and depth == 0:
                break
            i += 1
        self.text = self.text[:i + 1] + '\n' + text + '\n' + self.text[i + 1:]

    def at_block_end(self, fnref, header_regex_, text, which='then', nth=0, count=1):
        """Insert text as last statement of the block that follows the header matched by
        header_regex_ (e.g. an `if let ... =` header), or of its `else` block.  Anchoring on the
        control structure instead of on the statements inside the block keeps proof hints in
        place when those statements change."""
        s, p, bo, bc = self._fn_span(fnref)
        ms = list(re.finditer(header_regex_, s.code[bo:bc], re.S))
        if len(ms) != count:
            raise ExtractError('unit %s: block header %r in %s matched %d times, expected %d' % (self.name, header_regex_, fnref, len(ms), count))
        hb = s.body_open(bo + ms[nth].start())
        he = s.match_close(hb)
        if which == 'else':
            m = re.match(r'\s*else\s*\{', s.code[he + 1:])
            if not m:
                raise ExtractError('unit %s: no else block after %r in %s' % (self.name, header_regex_, fnref))
            hb = he + 1 + m.end() - 1
            he = s.match_close(hb)
        # a block whose last expression is a value would change meaning; only statement blocks here
        self.text = self.text[:he] + text + '\n' + self.text[he:]

    def replace_in(self, fnref, name, pattern, repl, expect=1):
        s, p, bo, bc = self._fn_span(fnref)
        seg, n = re.subn(pattern, repl, self.text[bo:bc + 1], flags=re.S)
        lo, hi = (expect, expect) if isinstance(expect, int) else expect
        if not (lo <= n <= hi):
            raise ExtractError('unit %s: rule %s in %s matched %d times, expected %s' % (self.name, name, fnref, n, expect))
        self.text = self.text[:bo] + seg + self.text[bc + 1:]
        self.rule_hits.append((name + '@' + self.fnkey(fnref), n))
        return n

    # ----------------------------------------------------------- finalisation
    def finish(self, header, footer='} // verus!\nfn main() {}\n'):
        self.text = header + self.text + footer

    def fn_table(self, text=None):
        """[(first_line, last_line, key)] for every fn with a body in the
        final text (keys: 'impl header::fn' or 'fn')."""
        s = Src('<unit %s>' % self.name, self.text if text is None else text)
        if text is not None:
            saved = self.text
            self.text = text
            try:
                return self.fn_table()
            finally:
                self.text = saved
        table = []
        impls = []
        for m in re.finditer(r'(?m)^\s*(?:pub\s+)?(?:unsafe\s+)?impl(?![A-Za-z0-9_])', s.code):
            try:
                bo = s.body_open(m.start())
            except ExtractError:
                continue
            if s.code[bo] != '{':
                continue
            bc = s.match_close(bo)
            hdr = re.sub(r'\s+', ' ', s.code[m.start():bo]).strip()
            hdr = re.sub(r'^pub ', '', hdr)
            impls.append((bo, bc, hdr))
        for m in re.finditer(r'(?<![A-Za-z0-9_])fn\s+([A-Za-z0-9_]+)', s.code):
            try:
                bo = s.body_open(m.start())
            except ExtractError:
                continue
            if s.code[bo] != '{':
                continue
            bc = s.match_close(bo)
            owner = None
            for ibo, ibc, hdr in impls:
                if ibo < m.start() < ibc:
                    owner = hdr
            key = (owner + '::' if owner else '') + m.group(1)
            table.append((s.line_of(m.start()), s.line_of(bc), key))
        return table

    def vacuity_variant(self):
        """Same text with `assert(false)` as first statement of every
        contracted function: each of them must then FAIL to verify."""
        saved = self.text
        try:
            # hand-written probes for stubs: lines `// @VACUITY-ONLY <stmt>` become live
            self.text = re.sub(r'// @VACUITY-ONLY (.*)', r'\1 // VACUITY-PROBE', self.text)
            for key in self.contracted:
                if key in self.no_vacuity:
                    continue
                fnref = tuple(key.rsplit('::', 1)) if '::' in key else key
                s_, p_, bo_, bc_ = self._fn_span(fnref)
                is_proof = re.search(r'(?<![A-Za-z0-9_])proof\s+fn\s*$', self.text[max(0, p_ - 40):p_ + 2].split('fn')[0] + 'fn') is not None
                self.body_start(fnref, '        assert(false); // VACUITY-PROBE' if is_proof else '        proof { assert(false); } // VACUITY-PROBE')
            return self.text
        finally:
            self.text = saved
