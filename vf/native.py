"""Native search for a concrete failing input after a Verus obligation failed (replay aid).

Verus gives no counterexample.  For the codec properties the replay crate holds an independent
reference implementation of RFC 7252 section 3 and a boundary-value enumeration (replay/src/bin/codec_search.rs);
it is built against the tree under test and run; the first discrepancy it prints is stored in the replay file.
The search never decides a verdict: it only turns `no-failing-input-found` into a concrete input when it can."""
import os
import shutil
import subprocess

ROOT = os.path.dirname(os.path.dirname(os.path.abspath(__file__)))
CRATE = os.path.join(ROOT, 'replay')
SEARCHES = {'C01': 'codec_search', 'C02': 'codec_search', 'C03': 'codec_search', 'C04': 'codec_search',
            'C08': 'block_search', 'C09': 'block_search', 'C10': 'block_search', 'C11': 'block_search', 'C12': 'block_search', 'C14': 'observe_search', 'C15': 'observe_search',
            'C05': 'text_search C05', 'C06': 'text_search C06', 'C07': 'text_search C07', 'C16': 'text_search C16', 'C17': 'text_search C17', 'C18': 'text_search C18', 'C19': 'text_search C19', 'C20': 'cache_search'}


def _crate_for(repo):
    if os.path.realpath(repo) == '/repo':
        return CRATE, None
    scratch = os.path.join(ROOT, '.build', 'replay-crate-%d' % os.getpid())
    if os.path.exists(scratch):
        shutil.rmtree(scratch)
    shutil.copytree(CRATE, scratch, ignore=shutil.ignore_patterns('target'))
    p = os.path.join(scratch, 'Cargo.toml')
    txt = open(p).read().replace('path = "/repo"', 'path = "%s"' % os.path.realpath(repo))
    open(p, 'w').write(txt)
    return scratch, scratch


def _run(binary, repo, timeout=600):
    crate, scratch = _crate_for(repo)
    env = dict(os.environ)
    env['CARGO_NET_OFFLINE'] = 'true'
    env['CARGO_TARGET_DIR'] = os.path.join(ROOT, '.build', 'replay-target')
    binary, _, arg = binary.partition(' ')
    cmd = ['cargo', 'run', '--offline', '--release', '--quiet', '--bin', binary] + (['--', arg] if arg else [])
    try:
        p = subprocess.run(cmd, cwd=crate, env=env, capture_output=True, text=True, timeout=timeout)
        out = p.stdout if ('FOUND ' in p.stdout or 'NONE' in p.stdout) else ('ERROR ' + p.stderr[-400:])
    except subprocess.TimeoutExpired:
        out = ''
    finally:
        if scratch:
            shutil.rmtree(scratch, ignore_errors=True)
    return 'cd replay && ' + ' '.join(cmd), out


def search(pid, ob, repo):
    binary = SEARCHES.get(pid)
    if not binary:
        return None
    cmd, out = _run(binary, repo)
    for line in out.splitlines():
        if line.startswith('FOUND '):
            kind, _, detail = line[6:].partition(' ')
            return {'found': True, 'search': binary, 'kind': kind, 'input': detail[:4000], 'cmd': cmd,
                    'note': 'found by the native boundary search against the reference implementation; not the verifier\'s own counterexample'}
    return {'found': False, 'search': binary, 'cmd': cmd}


def rerun(rep, repo):
    nat = rep.get('native', {})
    cmd, out = _run(nat.get('search', 'codec_search'), repo)
    for line in out.splitlines():
        if line.startswith('FOUND '):
            print(line[:600])
            return True
    return False
