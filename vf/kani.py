"""Running Kani harnesses of /verif/kani (a crate with a path dependency on /repo)."""
import os
import re
import shutil
import subprocess
import time

ROOT = os.path.dirname(os.path.dirname(os.path.abspath(__file__)))
KANI_DIR = os.path.join(ROOT, 'kani')
TARGET = os.path.join(ROOT, '.build', 'kani-target')


class KaniResult:
    def __init__(self, harness):
        self.harness = harness
        self.status = 'undecided'   # verified | failed | undecided
        self.reason = ''
        self.checks = 0
        self.failed_checks = []     # [{name, description, location}]
        self.wall_s = 0.0
        self.cmd = ''
        self.output_tail = ''
        self.concrete = None        # list of byte lists (kani::any() order), when playback was run


def prepare(repo):
    """The harness crate depends on /repo by path; when checking another tree
    (seeded self-test) the path is rewritten in a scratch copy of the crate."""
    os.makedirs(TARGET, exist_ok=True)
    lock_src = os.path.join(repo, 'Cargo.lock')
    if os.path.exists(lock_src):
        shutil.copy(lock_src, os.path.join(KANI_DIR, 'Cargo.lock'))
    if os.path.realpath(repo) == '/repo':
        return KANI_DIR
    scratch = os.path.join(ROOT, '.build', 'kani-crate-%d' % os.getpid())
    if os.path.exists(scratch):
        shutil.rmtree(scratch)
    shutil.copytree(KANI_DIR, scratch, ignore=shutil.ignore_patterns('target'))
    p = os.path.join(scratch, 'Cargo.toml')
    s = open(p).read().replace('path = "/repo"', 'path = "%s"' % os.path.realpath(repo))
    open(p, 'w').write(s)
    return scratch


def parse(out, r):
    m = re.search(r'\*\* (\d+) of (\d+) failed', out)
    if m:
        r.checks = int(m.group(2))
    # failed checks
    for cm in re.finditer(r'Check \d+: (\S+)\n\s*- Status: FAILURE\n\s*- Description: "(.*?)"\n\s*- Location: ([^\n]*)\n', out, re.S):
        r.failed_checks.append({'name': cm.group(1), 'description': ' '.join(cm.group(2).split()), 'location': cm.group(3)})
    if 'VERIFICATION:- SUCCESSFUL' in out:
        r.status = 'verified'
    elif 'VERIFICATION:- FAILED' in out:
        # unwinding assertion failures or unsupported constructs are "undecided"
        real = [c for c in r.failed_checks if 'unwinding assertion' not in c['description'] and 'unsupported' not in c['name']]
        unwind = [c for c in r.failed_checks if 'unwinding assertion' in c['description']]
        if real:
            r.status = 'failed'
            r.failed_checks = real
        else:
            r.status = 'undecided'
            r.reason = 'unwinding assertion failed / unsupported construct' if unwind or r.failed_checks else 'FAILED without failed checks'
    else:
        r.status = 'undecided'
        r.reason = 'no verdict (compile error, timeout or out of memory)'


def run(harness, crate_dir, timeout=600, mem_gb=24, playback=False, extra=()):
    r = KaniResult(harness)
    cmd = ['cargo', 'kani', '--target-dir', TARGET, '-Z', 'function-contracts', '-Z', 'stubbing', '--harness', harness]
    if playback:
        cmd += ['-Z', 'concrete-playback', '--concrete-playback=print']
    cmd += list(extra)
    r.cmd = 'cd %s && CARGO_NET_OFFLINE=true %s' % (crate_dir, ' '.join(cmd))
    env = dict(os.environ)
    env['CARGO_NET_OFFLINE'] = 'true'
    t0 = time.time()
    shell = 'ulimit -v %d; exec %s' % (mem_gb * 1024 * 1024, ' '.join("'%s'" % c for c in cmd))
    try:
        p = subprocess.run(['bash', '-c', shell], cwd=crate_dir, env=env, capture_output=True, text=True, timeout=timeout)
        out = p.stdout + '\n' + p.stderr
    except subprocess.TimeoutExpired as e:
        r.wall_s = time.time() - t0
        r.reason = 'timeout after %ds' % timeout
        subprocess.run(['pkill', '-f', 'cbmc.*%s' % harness], capture_output=True)
        return r
    r.wall_s = time.time() - t0
    r.output_tail = out[-6000:]
    parse(out, r)
    if playback:
        vals = re.search(r'let concrete_vals: Vec<Vec<u8>> = vec!\[(.*?)\];', out, re.S)
        if vals:
            body = vals.group(1)
            r.concrete = [[int(x) for x in re.findall(r'\d+', v)] for v in re.findall(r'vec!\[(.*?)\]', body, re.S)]
            r.playback_text = out[out.find('Concrete playback'):][:4000]
    return r


def native_playback(harness, crate_dir, timeout=900, test_source=None):
    """Replay Kani's counterexample against the real code, natively: Kani writes a unit test
    (`kani_concrete_playback_<harness>_<hash>`, the harness body fed with the concrete values of
    kani::any()) into a scratch copy of the harness crate, `cargo kani playback` compiles it with
    the ordinary Rust back end and runs it against the crate under test.  A failing test means the
    violation is reproduced outside the verifier."""
    scratch = os.path.join(ROOT, '.build', 'kani-playback-%d' % os.getpid())
    if os.path.exists(scratch):
        shutil.rmtree(scratch)
    shutil.copytree(crate_dir, scratch, ignore=shutil.ignore_patterns('target'))
    env = dict(os.environ)
    env['CARGO_NET_OFFLINE'] = 'true'
    res = {'reproduced': False, 'test_name': None, 'test_source': None, 'cmd': '', 'output_tail': ''}
    try:
        if test_source is None:
            cmd = ['cargo', 'kani', '--target-dir', TARGET, '-Z', 'function-contracts', '-Z', 'stubbing', '-Z', 'concrete-playback',
                   '--concrete-playback=inplace', '--harness', harness]
            p = subprocess.run(cmd, cwd=scratch, env=env, capture_output=True, text=True, timeout=timeout)
            m = re.search(r'- (kani_concrete_playback_\w+)\.', p.stdout + p.stderr)
            if not m:
                res['output_tail'] = (p.stdout + p.stderr)[-1500:]
                return res
            res['test_name'] = m.group(1)
            # pick the generated test out of the sources
            for dirpath, _, files in os.walk(os.path.join(scratch, 'src')):
                for f in files:
                    txt = open(os.path.join(dirpath, f)).read()
                    i = txt.find('fn ' + res['test_name'])
                    if i >= 0:
                        j = txt.find('concrete_playback_run', i)
                        k = txt.find('}', j)
                        a = txt.rfind('#[test]', 0, i)
                        res['test_source'] = txt[a:k + 1]
                        res['test_file'] = os.path.relpath(os.path.join(dirpath, f), scratch)
        else:
            res['test_name'] = test_source['name']
            res['test_source'] = test_source['source']
            res['test_file'] = test_source['file']
            fp = os.path.join(scratch, test_source['file'])
            txt = open(fp).read()
            hm = re.search(r'fn\s+' + re.escape(harness) + r'\s*\(', txt)
            # append the stored test to the module that holds the harness
            txt = txt.rstrip() + '\n' + test_source['source'] + '\n'
            open(fp, 'w').write(txt)
        cmd2 = ['cargo', 'kani', 'playback', '-Z', 'concrete-playback', '--', res['test_name']]
        env['CARGO_TARGET_DIR'] = TARGET + '-playback'
        res['cmd'] = 'cd <scratch copy of kani/> && CARGO_NET_OFFLINE=true ' + ' '.join(cmd2)
        p2 = subprocess.run(cmd2, cwd=scratch, env=env, capture_output=True, text=True, timeout=timeout)
        out = p2.stdout + p2.stderr
        res['output_tail'] = out[-2500:]
        res['reproduced'] = ('test result: FAILED' in out) and (res['test_name'] in out)
        res['ran'] = 'test result:' in out
    except subprocess.TimeoutExpired:
        res['output_tail'] = 'timeout'
    finally:
        shutil.rmtree(scratch, ignore_errors=True)
    return res
