#!/bin/bash
# Build what the checks need from files on disk only (offline).  Everything else is rebuilt by
# each check from /repo's working tree.
set -e
cd /verif
mkdir -p .build/kani-target evidence replays
export CARGO_NET_OFFLINE=true
# warm the Kani build of the harness crate (dependencies of /repo); failures here are not fatal,
# every check rebuilds what it needs
cp /repo/Cargo.lock kani/Cargo.lock 2>/dev/null || true
(cd kani && timeout 900 cargo kani --target-dir /verif/.build/kani-target --harness option_number_roundtrip >/dev/null 2>&1) || true
verus --version >/dev/null
echo setup done
